#!/bin/sh
# Warm the Go build caches (plain and -race std lib) and compile the harness once.
set -e
cd "$(dirname "$0")/harness"
export GOFLAGS=-mod=mod GOPROXY=off GOSUMDB=off GOTOOLCHAIN=local
GO=/usr/local/bin/go1.26.8
[ -x "$GO" ] || GO=/opt/veriftools/go1.26.8/bin/go
[ -x "$GO" ] || GO=/root/go/pkg/mod/golang.org/toolchain@v0.0.1-go1.25.0.linux-amd64/bin/go
mkdir -p ../.run
$GO test -c -tags verif -o ../.run/warm.test . 
$GO test -c -race -tags verif -o ../.run/warm.race.test .
rm -f ../.run/warm.test ../.run/warm.race.test
echo setup ok
