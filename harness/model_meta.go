package harness

// Reference model of the meta API and meta events (C18; its session-kill and
// testament parts are reused by C05, its session queries by C09/C11).

import (
	"fmt"
	"os"
	"sort"
	"strings"

	"github.com/gammazero/nexus/v3/wamp"
)

// knownOpen reports whether an open known finding is excluded in this run
// (the driver passes their ids in VERIF_EXCLUDE for generated search; pinned
// regression cases run without it, i.e. strict).
func knownOpen(id string) bool {
	for _, x := range strings.Split(os.Getenv("VERIF_EXCLUDE"), ",") {
		if x == id {
			return true
		}
	}
	return false
}

type mTestament struct {
	topic string
	args  wamp.List
	kw    wamp.Dict
	opts  wamp.Dict
	scope string
}

type metaEvt struct {
	realm  string
	topic  string
	skip   int // session that must not receive it (-1 none)
	desc   string
	args   func(ev *wamp.Event) bool
	opt    bool   // optional (grey)
	ordKey string // events with the same key must arrive in emission order
}

type metaPart struct {
	b          *brokerPart
	d          *dealerPart
	testaments map[int][]mTestament
	queue      []metaEvt
	// extras: ids of router-internal registrations/subscriptions seen in list
	// answers (meta procedures themselves); learned, must stay constant.
	extraRegs int
	seq       int
	killAllVictims map[int]bool
	w         *World
}

func newMetaPart(w *World, b *brokerPart, d *dealerPart) *metaPart {
	m := &metaPart{b: b, d: d, testaments: map[int][]mTestament{}, extraRegs: -1, killAllVictims: map[int]bool{}, w: w}
	d.hasMeta = true
	if b != nil {
		b.onCreate = func(st *StepRec, s int, sub *mSub) {
			sid, subid, uri, class := w.sess[s].sid, sub.id, sub.topic, sub.class
			m.emit(metaEvt{realm: sub.realm, topic: "wamp.subscription.on_create", skip: s, ordKey: fmt.Sprintf("sub:%d", sub.id), desc: fmt.Sprintf("on_create[%d,{id:%d,uri:%q}]", sid, subid, uri),
				args: func(ev *wamp.Event) bool {
					if len(ev.Arguments) < 2 || !idEq(ev.Arguments[0], sid) {
						return false
					}
					dd, ok := wamp.AsDict(ev.Arguments[1])
					if !ok || !idEq(dd["id"], subid) {
						return false
					}
					u, _ := wamp.AsString(dd["uri"])
					mt, _ := wamp.AsString(dd["match"])
					return u == uri && policyClass(mt) == class
				}})
		}
		b.onSubscribe = func(st *StepRec, s int, sub *mSub) {
			m.emit(m.pairEvt(w, sub.realm, "wamp.subscription.on_subscribe", s, s, sub.id))
		}
		b.onUnsubscribe = func(st *StepRec, s int, sub *mSub, byLeave bool) {
			e := m.pairEvt(w, sub.realm, "wamp.subscription.on_unsubscribe", s, s, sub.id)
			e.opt = byLeave // on_unsubscribe when a subscriber leaves: optional (DESIGN 3.6)
			m.emit(e)
		}
		b.onDelete = func(st *StepRec, s int, sub *mSub) {
			e := m.pairEvt(w, sub.realm, "wamp.subscription.on_delete", s, s, sub.id)
			if w.multiKill {
				id := sub.id
				e.skip = -1
				e.opt = true // the deleting victim is skipped as causer; which one it is is undetermined
				e.args = func(ev *wamp.Event) bool { return len(ev.Arguments) >= 2 && idEq(ev.Arguments[1], id) }
			}
			m.emit(e)
		}
	}
	d.onCreate = func(st *StepRec, s int, r *mReg) {
		sid, rid, uri, class, pol := w.sess[s].sid, r.id, r.uri, r.class, r.policy
		m.emit(metaEvt{realm: r.realm, topic: "wamp.registration.on_create", skip: -1, ordKey: fmt.Sprintf("reg:%d", r.id), desc: fmt.Sprintf("on_create[%d,{id:%d,uri:%q}]", sid, rid, uri),
			args: func(ev *wamp.Event) bool {
				if len(ev.Arguments) < 2 || !idEq(ev.Arguments[0], sid) {
					return false
				}
				dd, ok := wamp.AsDict(ev.Arguments[1])
				if !ok || !idEq(dd["id"], rid) {
					return false
				}
				u, _ := wamp.AsString(dd["uri"])
				mt, _ := wamp.AsString(dd["match"])
				iv, _ := wamp.AsString(dd["invoke"])
				return u == uri && policyClass(mt) == class && iv == pol
			}})
	}
	d.onRegister = func(st *StepRec, s int, r *mReg) {
		m.emit(m.pairEvt(w, r.realm, "wamp.registration.on_register", -1, s, r.id))
	}
	d.onUnregister = func(st *StepRec, s int, r *mReg) {
		m.emit(m.pairEvt(w, r.realm, "wamp.registration.on_unregister", -1, s, r.id))
	}
	d.onDelete = func(st *StepRec, s int, r *mReg) {
		e := m.pairEvt(w, r.realm, "wamp.registration.on_delete", -1, s, r.id)
		if w.multiKill {
			id := r.id
			e.args = func(ev *wamp.Event) bool { return len(ev.Arguments) >= 2 && idEq(ev.Arguments[1], id) }
		}
		m.emit(e)
	}
	return m
}

func idEq(v any, id wamp.ID) bool {
	got, ok := wamp.AsID(v)
	return ok && got == id
}

func (m *metaPart) pairEvt(w *World, realm, topic string, skip, s int, id wamp.ID) metaEvt {
	sid := w.sess[s].sid
	fam := "sub"
	if strings.HasPrefix(topic, "wamp.registration.") {
		fam = "reg"
	}
	return metaEvt{realm: realm, topic: topic, skip: skip, ordKey: fmt.Sprintf("%s:%d", fam, id), desc: fmt.Sprintf("%s[%d,%d]", topic, sid, id),
		args: func(ev *wamp.Event) bool {
			return len(ev.Arguments) >= 2 && idEq(ev.Arguments[0], sid) && idEq(ev.Arguments[1], id)
		}}
}

// emit turns a meta event into expectations for the current subscribers of
// its topic. It must be called at the model moment the event is due, because
// the recipient set is the membership at that moment.
func (m *metaPart) emit(e metaEvt) {
	if m.w != nil && m.w.multiKill {
		e.ordKey = "" // victims of one kill request are removed in no particular order
	}
	m.queue = append(m.queue, e)
}

func (m *metaPart) flush(w *World, exp Exp) {
	if m.b == nil {
		m.queue = nil
		return
	}
	for _, e := range m.queue {
		m.expectEvent(w, e, exp)
	}
	m.queue = nil
}

func (m *metaPart) expectEvent(w *World, e metaEvt, exp Exp) {
	for _, sub := range m.b.matching(e.realm, e.topic) {
		members := make([]int, 0, len(sub.members))
		for idx := range sub.members {
			members = append(members, idx)
		}
		sort.Ints(members)
		for _, idx := range members {
			if idx == e.skip || !w.sess[idx].live() {
				continue
			}
			m.seq++
			subID, class, topic, args := sub.id, sub.class, e.topic, e.args
			match := func(x wamp.Message) bool {
				ev, ok := x.(*wamp.Event)
				if !ok || ev.Subscription != subID {
					return false
				}
				if class != "exact" {
					if tp, _ := wamp.AsString(ev.Details["topic"]); tp != topic {
						return false
					}
				}
				return args(ev)
			}
			w.st.Label("meta_event_expected:" + strings.TrimPrefix(e.topic, "wamp."))
			seq := m.seq
			if e.ordKey == "" {
				seq = 0
			}
			// order is promised per recipient subscription, not across them
			exp[idx] = append(exp[idx], expMsg{desc: "EVENT " + e.desc, match: match, optional: e.opt, seq: seq, ordKey: fmt.Sprintf("%s@%d", e.ordKey, subID)})
		}
	}
}

func (m *metaPart) Ignore(w *World, s int, x wamp.Message) bool { return false }

func (m *metaPart) OnEnded(w *World, st *StepRec, idx int, exp Exp) {
	// broker and dealer parts ran before this one (part order), so their
	// on_unsubscribe/on_delete/on_unregister events are already queued and the
	// leaving session is no longer a subscriber.
	ms := w.sess[idx]
	victim := m.killAllVictims[idx]
	relaxed := victim && knownOpen("F-killall")
	// testaments: detached first, then destroyed, each exactly once
	ts := m.testaments[idx]
	delete(m.testaments, idx)
	if len(ts) > 0 {
		w.st.Label("nt05")
	}
	sort.SliceStable(ts, func(i, j int) bool { return ts[i].scope == "detached" && ts[j].scope != "detached" })
	m.flush(w, exp)
	for _, t := range ts {
		w.st.Label("testament_published")
		if victim {
			w.st.Label("testament_of_kill_all_victim")
		}
		m.expectTestament(w, ms.realm, t, exp, relaxed)
	}
	sid := ms.sid
	authid, authrole := ms.attrs["authid"], ms.attrs["authrole"]
	e := metaEvt{realm: ms.realm, topic: "wamp.session.on_leave", skip: -1, desc: fmt.Sprintf("on_leave[%d,%q,%q]", sid, authid, authrole), opt: relaxed,
		args: func(ev *wamp.Event) bool {
			if len(ev.Arguments) < 1 || !idEq(ev.Arguments[0], sid) {
				return false
			}
			if len(ev.Arguments) >= 3 {
				a, _ := wamp.AsString(ev.Arguments[1])
				r, _ := wamp.AsString(ev.Arguments[2])
				return a == authid && r == authrole
			}
			return true
		}}
	m.expectEvent(w, e, exp)
}

func (m *metaPart) expectTestament(w *World, realm string, t mTestament, exp Exp, relaxed bool) {
	if m.b == nil {
		return
	}
	if v, _ := modelValidURI(t.topic, w.realms[realm] != nil && w.realms[realm].Strict, ""); !v {
		return
	}
	for _, sub := range m.b.matching(realm, t.topic) {
		for idx := range sub.members {
			rs := w.sess[idx]
			if !rs.live() || !modelFilterAllows(t.opts, rs.sid, rs.attrs) {
				continue
			}
			subID, class, topic, args, kw := sub.id, sub.class, t.topic, t.args, t.kw
			w.st.Label("testament_delivery_expected")
			m.seq++
			exp[idx] = append(exp[idx], expMsg{desc: fmt.Sprintf("EVENT{sub=%d testament %q}", subID, topic), optional: relaxed, match: func(x wamp.Message) bool {
				ev, ok := x.(*wamp.Event)
				if !ok || ev.Subscription != subID {
					return false
				}
				if class != "exact" {
					if tp, _ := wamp.AsString(ev.Details["topic"]); tp != topic {
						return false
					}
				}
				return PayloadEq(ev.Arguments, args) && PayloadEq(ev.ArgumentsKw, kw)
			}})
		}
	}
}

func (m *metaPart) AfterStep(w *World, st *StepRec, exp Exp) *Violation {
	m.flush(w, exp)
	return nil
}

func isResult(x wamp.Message, req wamp.ID) (*wamp.Result, bool) {
	r, ok := x.(*wamp.Result)
	if !ok || r.Request != req {
		return nil, false
	}
	return r, true
}

func (m *metaPart) liveInRealm(w *World, realm string, roles []string) []*mSess {
	var out []*mSess
	for _, s := range w.sess {
		if !s.live() || s.realm != realm {
			continue
		}
		if len(roles) > 0 {
			ok := false
			for _, r := range roles {
				if s.attrs["authrole"] == r {
					ok = true
				}
			}
			if !ok {
				continue
			}
		}
		out = append(out, s)
	}
	return out
}

func idSetEq(v any, want []wamp.ID) bool {
	l, ok := wamp.AsList(v)
	if !ok {
		return false
	}
	if len(l) != len(want) {
		return false
	}
	seen := map[wamp.ID]int{}
	for _, x := range l {
		id, ok := wamp.AsID(x)
		if !ok {
			return false
		}
		seen[id]++
	}
	for _, id := range want {
		if seen[id] != 1 {
			return false
		}
	}
	return true
}

func (m *metaPart) OnSent(w *World, st *StepRec, sr sentRec, exp Exp) *Violation {
	// HELLO that led to a WELCOME: on_join
	if _, ok := sr.Msg.(*wamp.Hello); ok {
		m.flush(w, exp)
		m.maybeJoin(w, st, sr.S, exp)
		return nil
	}
	if _, ok := sr.Msg.(*wamp.Authenticate); ok {
		m.maybeJoin(w, st, sr.S, exp)
		return nil
	}
	call, ok := sr.Msg.(*wamp.Call)
	if !ok {
		m.flush(w, exp)
		return nil
	}
	proc := string(call.Procedure)
	s := sr.S
	ms := w.sess[s]
	realm := ms.realm
	rc := w.realm(s)
	if !routerProc(rc, proc) {
		// not provided by the router: ordinary routing (dealer model)
		m.flush(w, exp)
		return nil
	}
	req := call.Request
	args, kw := call.Arguments, call.ArgumentsKw
	w.st.Label("meta_call:" + strings.TrimPrefix(proc, "wamp."))
	for _, k := range []string{"register_conflict", "unsubscribe_foreign", "unregister_foreign", "register_same_session_again", "meta_kill_victims:2", "meta_kill_victims:3", "register_disclose_refused", "subscribe_invalid_uri"} {
		if w.st.Labels[k] > 0 {
			w.st.Label("nt18")
			break
		}
	}
	errIs := func(uri wamp.URI) {
		exp.must(s, fmt.Sprintf("ERROR{CALL req=%d %s}", req, uri), func(x wamp.Message) bool { return isCallError(x, req, uri) })
	}
	anyReply := func(why string) {
		w.st.Label("meta_call_hostile_args")
		exp.must(s, fmt.Sprintf("one RESULT or ERROR for req=%d (%s)", req, why), func(x wamp.Message) bool {
			if _, ok := isResult(x, req); ok {
				return true
			}
			return isCallError(x, req, "")
		})
	}
	result := func(desc string, check func(r *wamp.Result) bool) {
		exp.must(s, fmt.Sprintf("RESULT{req=%d} %s", req, desc), func(x wamp.Message) bool {
			r, ok := isResult(x, req)
			return ok && check(r)
		})
	}
	strArg := func(i int) (string, bool) {
		if len(args) <= i {
			return "", false
		}
		return wamp.AsString(args[i])
	}
	idArg := func(i int) (wamp.ID, bool) {
		if len(args) <= i {
			return 0, false
		}
		return wamp.AsID(args[i])
	}
	rolesArg := func() ([]string, bool) {
		if len(args) == 0 {
			return nil, true
		}
		l, ok := wamp.AsList(args[0])
		if !ok {
			return nil, false
		}
		var out []string
		for _, x := range l {
			s, ok := wamp.AsString(x)
			if !ok {
				return nil, false
			}
			out = append(out, s)
		}
		return out, true
	}
	killArgs := func() (reason string, ok bool) {
		if rv, has := kw["reason"]; has {
			r, isStr := wamp.AsString(rv)
			if isStr && r != "" {
				if v, _ := modelValidURI(r, false, ""); !v {
					return "", false
				}
				return r, true
			}
		}
		return string(wamp.CloseNormal), true
	}
	switch proc {
	case "wamp.session.count":
		roles, ok := rolesArg()
		if !ok {
			anyReply("non-list / non-string role filter")
			return nil
		}
		n := len(m.liveInRealm(w, realm, roles))
		result(fmt.Sprintf("[%d]", n), func(r *wamp.Result) bool {
			if len(r.Arguments) != 1 {
				return false
			}
			got, ok := wamp.AsInt64(r.Arguments[0])
			return ok && int(got) == n
		})
	case "wamp.session.list":
		roles, ok := rolesArg()
		if !ok {
			anyReply("non-list / non-string role filter")
			return nil
		}
		var ids []wamp.ID
		for _, x := range m.liveInRealm(w, realm, roles) {
			ids = append(ids, x.sid)
		}
		result(fmt.Sprintf("list of %d session ids %v", len(ids), ids), func(r *wamp.Result) bool {
			return len(r.Arguments) == 1 && idSetEq(r.Arguments[0], ids)
		})
	case "wamp.session.get":
		id, ok := idArg(0)
		t := -1
		if ok {
			t = w.sidToIdx(realm, id)
		}
		if t < 0 || !w.sess[t].live() {
			errIs(wamp.ErrNoSuchSession)
			return nil
		}
		ts := w.sess[t]
		result(fmt.Sprintf("details of session %d", id), func(r *wamp.Result) bool {
			if len(r.Arguments) != 1 {
				return false
			}
			dd, ok := wamp.AsDict(r.Arguments[0])
			if !ok || !idEq(dd["session"], ts.sid) {
				return false
			}
			for _, k := range []string{"authid", "authrole", "authmethod", "authprovider"} {
				want, has := ts.attrs[k]
				got, _ := wamp.AsString(dd[k])
				if has && got != want {
					return false
				}
			}
			if tr, ok := wamp.AsDict(dd["transport"]); ok && tr != nil {
				if _, has := tr["auth"]; has {
					return false
				}
			}
			return true
		})
	case "wamp.session.kill", "wamp.session.kill_by_authid", "wamp.session.kill_by_authrole", "wamp.session.kill_all":
		reason, rok := killArgs()
		var victims []int
		switch proc {
		case "wamp.session.kill":
			id, ok := idArg(0)
			t := -1
			if ok {
				t = w.sidToIdx(realm, id)
			}
			if t < 0 || !w.sess[t].live() || t == s {
				if !rok {
					// two errors apply; which one is reported is not stated
					exp.must(s, fmt.Sprintf("ERROR{CALL req=%d no_such_session or invalid_uri}", req), func(x wamp.Message) bool {
						return isCallError(x, req, wamp.ErrNoSuchSession) || isCallError(x, req, wamp.ErrInvalidURI)
					})
					return nil
				}
				errIs(wamp.ErrNoSuchSession)
				return nil
			}
			if !rok {
				errIs(wamp.ErrInvalidURI)
				return nil
			}
			victims = []int{t}
			result("empty", func(r *wamp.Result) bool { return true })
		case "wamp.session.kill_all":
			if !rok {
				errIs(wamp.ErrInvalidURI)
				return nil
			}
			for _, x := range m.liveInRealm(w, realm, nil) {
				if x.idx != s {
					victims = append(victims, x.idx)
					m.killAllVictims[x.idx] = true
				}
			}
			n := len(victims)
			result(fmt.Sprintf("[%d]", n), func(r *wamp.Result) bool {
				got, ok := int64(0), false
				if len(r.Arguments) == 1 {
					got, ok = wamp.AsInt64(r.Arguments[0])
				}
				return ok && int(got) == n
			})
		default:
			key := "authid"
			if proc == "wamp.session.kill_by_authrole" {
				key = "authrole"
			}
			val, ok := strArg(0)
			if !ok {
				anyReply("missing / non-string " + key)
				return nil
			}
			if !rok {
				errIs(wamp.ErrInvalidURI)
				return nil
			}
			for _, x := range m.liveInRealm(w, realm, nil) {
				if x.idx != s && x.attrs[key] == val {
					victims = append(victims, x.idx)
				}
			}
			n := len(victims)
			result(fmt.Sprintf("[%d]", n), func(r *wamp.Result) bool {
				got, ok := int64(0), false
				if len(r.Arguments) == 1 {
					got, ok = wamp.AsInt64(r.Arguments[0])
				}
				return ok && int(got) == n
			})
		}
		for _, v := range victims {
			w.killed[v] = reason
		}
		w.st.Label(fmt.Sprintf("meta_kill_victims:%d", min(len(victims), 3)))
	case "wamp.session.modify_details":
		id, ok := idArg(0)
		var delta wamp.Dict
		dok := false
		if len(args) >= 2 {
			delta, dok = wamp.AsDict(args[1])
		}
		if !ok || !dok || delta == nil {
			anyReply("malformed modify_details arguments")
			return nil
		}
		if _, has := delta["session"]; has {
			errIs(wamp.ErrInvalidArgument)
			return nil
		}
		t := w.sidToIdx(realm, id)
		if t < 0 || !w.sess[t].live() {
			errIs(wamp.ErrNoSuchSession)
			return nil
		}
		for k, v := range delta {
			if sv, ok := wamp.AsString(v); ok {
				w.sess[t].attrs[k] = sv
			} else {
				delete(w.sess[t].attrs, k)
			}
		}
		result("empty", func(r *wamp.Result) bool { return true })
	case "wamp.session.add_testament":
		topic, ok1 := strArg(0)
		var targs wamp.List
		var tkw wamp.Dict
		ok2, ok3 := false, false
		if len(args) >= 3 {
			targs, ok2 = wamp.AsList(args[1])
			tkw, ok3 = wamp.AsDict(args[2])
		}
		scope := "destroyed"
		if sv, has := kw["scope"]; has {
			if sc, ok := wamp.AsString(sv); ok && sc != "" {
				scope = sc
			}
		}
		if !ok1 || !ok2 || !ok3 || (scope != "destroyed" && scope != "detached") {
			errIs(wamp.ErrInvalidArgument)
			return nil
		}
		opts, _ := wamp.AsDict(kw["publish_options"])
		m.testaments[s] = append(m.testaments[s], mTestament{topic: topic, args: targs, kw: tkw, opts: opts, scope: scope})
		w.st.Label("testament_added")
		result("empty", func(r *wamp.Result) bool { return true })
	case "wamp.session.flush_testaments":
		scope := "destroyed"
		if sv, has := kw["scope"]; has {
			if sc, ok := wamp.AsString(sv); ok && sc != "" {
				scope = sc
			}
		}
		if scope != "destroyed" && scope != "detached" {
			errIs(wamp.ErrInvalidArgument)
			return nil
		}
		var keep []mTestament
		for _, t := range m.testaments[s] {
			if t.scope != scope {
				keep = append(keep, t)
			}
		}
		m.testaments[s] = keep
		w.st.Label("testament_flushed")
		result("empty", func(r *wamp.Result) bool { return true })
	default:
		if v := m.regSubQuery(w, st, s, realm, proc, call, exp, errIs, anyReply, result, idArg, strArg); v != nil {
			return v
		}
	}
	m.flush(w, exp)
	return nil
}

func (m *metaPart) maybeJoin(w *World, st *StepRec, s int, exp Exp) {
	ms := w.sess[s]
	if !ms.joined || ms.ended {
		return
	}
	for _, r := range st.Recv[s] {
		if _, ok := r.(*wamp.Welcome); ok {
			sid := ms.sid
			attrs := map[string]string{}
			for k, v := range ms.attrs {
				attrs[k] = v
			}
			m.expectEvent(w, metaEvt{realm: ms.realm, topic: "wamp.session.on_join", skip: -1, desc: fmt.Sprintf("on_join[{session:%d}]", sid),
				args: func(ev *wamp.Event) bool {
					if len(ev.Arguments) < 1 {
						return false
					}
					dd, ok := wamp.AsDict(ev.Arguments[0])
					if !ok || !idEq(dd["session"], sid) {
						return false
					}
					for _, k := range []string{"authid", "authrole", "authmethod", "authprovider"} {
						want, has := attrs[k]
						got, _ := wamp.AsString(dd[k])
						if has && got != want {
							return false
						}
					}
					if tr, ok := wamp.AsDict(dd["transport"]); ok && tr != nil {
						if _, has := tr["auth"]; has {
							return false
						}
					}
					return true
				}}, exp)
		}
	}
}

// classIDs extracts the id list stored under a class key of a list answer.
func classIDs(dd wamp.Dict, class string) ([]wamp.ID, bool) {
	v, has := dd[class]
	if !has || v == nil {
		return nil, true
	}
	l, ok := wamp.AsList(v)
	if !ok {
		return nil, false
	}
	var out []wamp.ID
	for _, x := range l {
		id, ok := wamp.AsID(x)
		if !ok {
			return nil, false
		}
		out = append(out, id)
	}
	return out, true
}

func containsAll(have []wamp.ID, want []wamp.ID) (extras int, ok bool) {
	set := map[wamp.ID]int{}
	for _, id := range have {
		set[id]++
	}
	for _, id := range want {
		if set[id] != 1 {
			return 0, false
		}
	}
	for _, n := range set {
		if n != 1 {
			return 0, false
		}
	}
	return len(have) - len(want), true
}

func nullOrZero(v any) bool {
	if v == nil {
		return true
	}
	if l, ok := v.(wamp.List); ok && len(l) == 0 {
		return true
	}
	if l, ok := v.([]any); ok && len(l) == 0 {
		return true
	}
	if l, ok := v.([]wamp.ID); ok && len(l) == 0 {
		return true
	}
	n, ok := wamp.AsInt64(v)
	return ok && n == 0
}

func (m *metaPart) regSubQuery(w *World, st *StepRec, s int, realm, proc string, call *wamp.Call, exp Exp,
	errIs func(wamp.URI), anyReply func(string), result func(string, func(*wamp.Result) bool),
	idArg func(int) (wamp.ID, bool), strArg func(int) (string, bool)) *Violation {
	args := call.Arguments
	matchOpt := func() string {
		if len(args) >= 2 {
			if dd, ok := wamp.AsDict(args[1]); ok {
				mt, _ := wamp.AsString(dd["match"])
				return policyClass(mt)
			}
		}
		return "exact"
	}
	switch proc {
	case "wamp.registration.list":
		want := map[string][]wamp.ID{}
		for _, r := range m.d.regs {
			if r.realm == realm {
				want[r.class] = append(want[r.class], r.id)
			}
		}
		result("registration ids by policy", func(r *wamp.Result) bool {
			if len(r.Arguments) != 1 {
				return false
			}
			dd, ok := wamp.AsDict(r.Arguments[0])
			if !ok {
				return false
			}
			for _, class := range []string{"exact", "prefix", "wildcard"} {
				have, ok := classIDs(dd, class)
				if !ok {
					return false
				}
				extras, ok := containsAll(have, want[class])
				if !ok {
					return false
				}
				if class != "exact" {
					if extras != 0 {
						return false
					}
					continue
				}
				// the router's own wamp.* procedures are listed too: a constant number
				if m.extraRegs < 0 {
					m.extraRegs = extras
				} else if extras != m.extraRegs {
					return false
				}
			}
			return true
		})
	case "wamp.registration.lookup", "wamp.registration.match":
		uri, ok := strArg(0)
		if !ok {
			anyReply("missing / non-string URI")
			return nil
		}
		if strings.HasPrefix(uri, "wamp.") {
			anyReply("router-internal procedure")
			return nil
		}
		var allowed []wamp.ID
		if proc == "wamp.registration.lookup" {
			if r := m.d.regs[subKey(realm, matchOpt(), uri)]; r != nil {
				allowed = []wamp.ID{r.id}
			}
		} else {
			for _, r := range m.d.resolve(realm, uri) {
				allowed = append(allowed, r.id)
			}
		}
		result(fmt.Sprintf("%s(%q) in %v", proc, uri, allowed), func(r *wamp.Result) bool {
			if len(r.Arguments) != 1 {
				return len(allowed) == 0 && len(r.Arguments) == 0
			}
			if len(allowed) == 0 {
				return nullOrZero(r.Arguments[0])
			}
			for _, id := range allowed {
				if idEq(r.Arguments[0], id) {
					return true
				}
			}
			return false
		})
	case "wamp.registration.get", "wamp.registration.list_callees", "wamp.registration.count_callees":
		id, ok := idArg(0)
		if !ok {
			errIs(wamp.ErrNoSuchRegistration)
			return nil
		}
		r := m.d.byID[idKey(realm, id)]
		if r == nil {
			if id < 200 {
				anyReply("possibly a router-internal registration id")
				return nil
			}
			errIs(wamp.ErrNoSuchRegistration)
			return nil
		}
		switch proc {
		case "wamp.registration.get":
			result(fmt.Sprintf("details of registration %d", id), func(x *wamp.Result) bool {
				if len(x.Arguments) != 1 {
					return false
				}
				dd, ok := wamp.AsDict(x.Arguments[0])
				if !ok || !idEq(dd["id"], r.id) {
					return false
				}
				u, _ := wamp.AsString(dd["uri"])
				mt, _ := wamp.AsString(dd["match"])
				iv, _ := wamp.AsString(dd["invoke"])
				return u == r.uri && policyClass(mt) == r.class && iv == r.policy
			})
		case "wamp.registration.list_callees":
			var ids []wamp.ID
			for _, x := range r.members {
				ids = append(ids, w.sess[x].sid)
			}
			result(fmt.Sprintf("callees %v", ids), func(x *wamp.Result) bool { return len(x.Arguments) == 1 && idSetEq(x.Arguments[0], ids) })
		default:
			n := len(r.members)
			result(fmt.Sprintf("[%d]", n), func(x *wamp.Result) bool {
				if len(x.Arguments) != 1 {
					return false
				}
				got, ok := wamp.AsInt64(x.Arguments[0])
				return ok && int(got) == n
			})
		}
	case "wamp.subscription.list":
		want := map[string][]wamp.ID{}
		for _, sb := range m.b.subs {
			if sb.realm == realm {
				want[sb.class] = append(want[sb.class], sb.id)
			}
		}
		result("subscription ids by policy", func(r *wamp.Result) bool {
			if len(r.Arguments) != 1 {
				return false
			}
			dd, ok := wamp.AsDict(r.Arguments[0])
			if !ok {
				return false
			}
			for _, class := range []string{"exact", "prefix", "wildcard"} {
				have, ok := classIDs(dd, class)
				if !ok {
					return false
				}
				if extras, ok := containsAll(have, want[class]); !ok || extras != 0 {
					return false
				}
			}
			return true
		})
	case "wamp.subscription.lookup":
		uri, ok := strArg(0)
		if !ok {
			anyReply("missing / non-string URI")
			return nil
		}
		sb := m.b.subs[subKey(realm, matchOpt(), uri)]
		result(fmt.Sprintf("lookup(%q)", uri), func(r *wamp.Result) bool {
			if len(r.Arguments) != 1 {
				return sb == nil && len(r.Arguments) == 0
			}
			if sb == nil {
				return nullOrZero(r.Arguments[0])
			}
			return idEq(r.Arguments[0], sb.id)
		})
	case "wamp.subscription.match":
		uri, ok := strArg(0)
		if !ok {
			anyReply("missing / non-string URI")
			return nil
		}
		var ids []wamp.ID
		for _, sb := range m.b.matching(realm, uri) {
			ids = append(ids, sb.id)
		}
		result(fmt.Sprintf("match(%q) = %v", uri, ids), func(r *wamp.Result) bool {
			if len(ids) == 0 {
				return len(r.Arguments) == 0 || (len(r.Arguments) == 1 && nullOrZero(r.Arguments[0]))
			}
			return len(r.Arguments) == 1 && idSetEq(r.Arguments[0], ids)
		})
	case "wamp.subscription.get", "wamp.subscription.list_subscribers", "wamp.subscription.count_suscribers":
		id, ok := idArg(0)
		var sb *mSub
		if ok {
			sb = m.b.byID[idKey(realm, id)]
		}
		if sb == nil {
			errIs(wamp.ErrNoSuchSubscription)
			return nil
		}
		if len(sb.members) == 0 && m.b.persistent[subKey(realm, sb.class, sb.topic)] && proc != "wamp.subscription.get" {
			// grey zone (DESIGN 3.6): the kept subscription of an event history that
			// nobody is subscribed to at the moment, asked for its subscribers
			anyReply("subscribers of a history subscription without subscribers")
			return nil
		}
		switch proc {
		case "wamp.subscription.get":
			result(fmt.Sprintf("details of subscription %d", id), func(x *wamp.Result) bool {
				if len(x.Arguments) != 1 {
					return false
				}
				dd, ok := wamp.AsDict(x.Arguments[0])
				if !ok || !idEq(dd["id"], sb.id) {
					return false
				}
				u, _ := wamp.AsString(dd["uri"])
				mt, _ := wamp.AsString(dd["match"])
				return u == sb.topic && policyClass(mt) == sb.class
			})
		case "wamp.subscription.list_subscribers":
			var ids []wamp.ID
			for x := range sb.members {
				ids = append(ids, w.sess[x].sid)
			}
			result(fmt.Sprintf("subscribers %v", ids), func(x *wamp.Result) bool { return len(x.Arguments) == 1 && idSetEq(x.Arguments[0], ids) })
		default:
			n := len(sb.members)
			result(fmt.Sprintf("[%d]", n), func(x *wamp.Result) bool {
				if len(x.Arguments) != 1 {
					return false
				}
				got, ok := wamp.AsInt64(x.Arguments[0])
				return ok && int(got) == n
			})
		}
	case "wamp.subscription.get_events":
		anyReply("event history is judged by C20")
	}
	return nil
}
