package harness

// The bubble executor: runs a Case against a real nexus router inside a
// testing/synctest bubble (the caller opens the bubble), step by step, with
// synctest.Wait() after every step so that the observable outcome of each step
// is complete and schedule independent for a correct router.

import (
	"fmt"
	"github.com/gammazero/nexus/v3/transport/serialize"
	"runtime"
	"sort"
	"strconv"
	"strings"
	"sync"
	"testing/synctest"
	"time"

	"github.com/gammazero/nexus/v3/router"
	"github.com/gammazero/nexus/v3/wamp"
)

// ---- log ring ---------------------------------------------------------

type ringLog struct {
	mu    sync.Mutex
	lines []string
	max   int
}

func newRingLog(max int) *ringLog { return &ringLog{max: max} }

func (l *ringLog) add(s string) {
	l.mu.Lock()
	if len(l.lines) >= l.max {
		copy(l.lines, l.lines[1:])
		l.lines = l.lines[:len(l.lines)-1]
	}
	l.lines = append(l.lines, strings.TrimRight(s, "\n"))
	l.mu.Unlock()
}
func (l *ringLog) Print(v ...any)                 { l.add(fmt.Sprint(v...)) }
func (l *ringLog) Println(v ...any)               { l.add(fmt.Sprintln(v...)) }
func (l *ringLog) Printf(format string, v ...any) { l.add(fmt.Sprintf(format, v...)) }
func (l *ringLog) Tail() []string {
	l.mu.Lock()
	defer l.mu.Unlock()
	return append([]string(nil), l.lines...)
}

// ---- sessions ---------------------------------------------------------

type idRec struct {
	ID  wamp.ID
	Req wamp.ID // request that created it (subscribe/register) or registration (invocation)
	URI string
	Aux string
}

type sentRec struct {
	S   int
	Msg wamp.Message
	Op  int // index into Case.Ops, -1 for engine generated
}

// link is the client end of a transport.
type link interface {
	// send hands one message to the router side; blocks until accepted or quit.
	send(m wamp.Message, quit <-chan struct{}) bool
	// drain returns everything that has arrived and whether the inbound
	// direction has been closed by the router side.
	drain() ([]wamp.Message, bool)
	// drop closes the transport from the client side.
	drop()
	// pause stops consuming inbound data (an unresponsive client).
	pause(on bool)
}

type SimSess struct {
	Idx     int
	Cfg     SessCfg
	e       *Engine
	lk      link
	Started bool // HELLO sent
	Joined  bool // WELCOME seen
	Aborted bool
	Ended   bool // inbound closed or GOODBYE seen or dropped by us
	Dropped bool
	Stalled bool
	SID     wamp.ID
	Welcome *wamp.Welcome
	nextReq wamp.ID

	Subs  []idRec
	Regs  []idRec
	Calls []idRec
	Invs  []idRec

	All           []wamp.Message // everything received, in order
	LastChallenge *wamp.Challenge
	HelloAuthID   string
	unsubByReq    map[wamp.ID]wamp.ID // request id -> subscription id of UNSUBSCRIBE messages queued
	unregByReq    map[wamp.ID]wamp.ID

	outq      chan sentRec
	Queued    int             // messages handed to the sender goroutine
	Delivered int             // messages the router side accepted
	queuedAt  []time.Duration // virtual times at which the still undelivered messages were queued
	quit      chan struct{}
	quitOnce  sync.Once
	mu        sync.Mutex
	deliv     []sentRec      // delivered but not yet collected into a step
	pendReq   map[wamp.ID]Op // request id -> op (subscribe/register) awaiting its reply
	senderWG  sync.WaitGroup
}

func (s *SimSess) NextReq() wamp.ID { s.nextReq++; return s.nextReq }

func (s *SimSess) sender() {
	defer s.senderWG.Done()
	for {
		select {
		case r := <-s.outq:
			if !s.lk.send(r.Msg, s.quit) {
				return
			}
			s.mu.Lock()
			s.deliv = append(s.deliv, r)
			s.Delivered++
			if len(s.queuedAt) > 0 {
				s.queuedAt = s.queuedAt[1:]
			}
			s.mu.Unlock()
		case <-s.quit:
			return
		}
	}
}

func (s *SimSess) stopSender() {
	s.quitOnce.Do(func() { close(s.quit) })
}

// ---- steps ---------------------------------------------------------------

type StepRec struct {
	N      int       // step number
	Phase  string    // "join" "op" "settle" "drop" "close"
	OpIdx  []int     // indices into Case.Ops executed (queued) in this step
	Sent   []sentRec // messages the router accepted during this step, per-session order preserved
	Recv   map[int][]wamp.Message
	Closed []int // sessions whose inbound side was found closed in this step
	T      time.Duration
	Notes  []string
}

type Violation struct {
	Prop   string `json:"property"`
	Reason string `json:"reason"`
	Step   int    `json:"step"`
}

func (v *Violation) String() string { return fmt.Sprintf("step %d: %s", v.Step, v.Reason) }

type CaseStats struct {
	NonTrivial bool           `json:"nontrivial"`
	Labels     map[string]int `json:"labels,omitempty"`
}

func (cs *CaseStats) Label(l string) {
	if cs.Labels == nil {
		cs.Labels = map[string]int{}
	}
	cs.Labels[l]++
}

// Oracle judges a run. All methods are called on the bubble's main goroutine
// at quiescence points.
type Oracle interface {
	OnStep(e *Engine, st *StepRec) *Violation
	// OnQuiesced: every session has ended, all timers have fired, router still up.
	OnQuiesced(e *Engine) *Violation
	// OnClosed: after Router.Close() returned and 24 more virtual hours passed.
	OnClosed(e *Engine) *Violation
	Stats() CaseStats
}

type baseOracle struct{ st CaseStats }

func (b *baseOracle) OnStep(*Engine, *StepRec) *Violation { return nil }
func (b *baseOracle) OnQuiesced(*Engine) *Violation       { return nil }
func (b *baseOracle) OnClosed(*Engine) *Violation         { return nil }
func (b *baseOracle) Stats() CaseStats                    { return b.st }

// ---- engine ---------------------------------------------------------------

type Engine struct {
	firstCfg *router.RealmConfig // the object the first realm was configured with
	// wsSer: one serializer instance per websocket subprotocol, shared by every
	// websocket session of the router - as router.WebsocketServer does
	wsSer   map[string]serialize.Serializer
	wsSerMu sync.Mutex
	// Realtime: the engine runs outside a synctest bubble on the real clock
	// (confirmation of a real-time hang, see realtime.go); quiescence is then
	// approximated by polling.
	Realtime     bool
	C            *Case
	R            router.Router
	Log          *ringLog
	Sess         []*SimSess
	Steps        []*StepRec
	T0           time.Time
	Pubs         []wamp.ID // publication ids seen in PUBLISHED, in order
	RouterClosed bool
	// hooks for property-specific op kinds
	Custom func(e *Engine, op *Op, idx int) bool
	// extra realm configuration
	TweakRealm func(rc *router.RealmConfig, cfg *RealmCfg)
	authzStats *authzStats
	Trace      []string // human readable log for replay output
	KeepTrace  bool
	// Nudge: after every step let 2 virtual minutes pass, so that no result-retry
	// sleeper survives into the next step (used when sessions have tiny queues).
	Nudge      bool
	Baseline   map[wamp.URI]router.VerifSizes // H1 snapshot right after start
	AuthSeen   map[string][]string            // authid|method -> correct responses computed so far (for replays)
	CloseDone  chan struct{}                  // closed when a router_close op's Router.Close() has returned
	RemoveDone []chan struct{}                // one per remove_realm op
}

func NewEngine(c *Case) *Engine {
	return &Engine{C: c, Log: newRingLog(400)}
}

func (e *Engine) Now() time.Duration { return time.Since(e.T0) }

func (e *Engine) tracef(format string, a ...any) {
	if e.KeepTrace {
		e.Trace = append(e.Trace, fmt.Sprintf("[%v] ", e.Now())+fmt.Sprintf(format, a...))
	}
}

func (e *Engine) buildRealm(cfg *RealmCfg) *router.RealmConfig {
	rc := &router.RealmConfig{
		URI:                       wamp.URI(cfg.URI),
		StrictURI:                 cfg.Strict,
		AnonymousAuth:             cfg.Anonymous,
		AllowDisclose:             cfg.AllowDisclose,
		RequireLocalAuth:          cfg.RequireLocalAuth,
		RequireLocalAuthz:         cfg.RequireLocalAuthz,
		MetaStrict:                cfg.MetaStrict,
		MetaIncludeSessionDetails: cfg.MetaInclude,
		EnableMetaKill:            cfg.MetaKill,
		EnableMetaModify:          cfg.MetaModify,
	}
	for _, h := range cfg.History {
		rc.TopicEventHistoryConfigs = append(rc.TopicEventHistoryConfigs, &router.TopicEventHistoryConfig{
			Topic: wamp.URI(h.Topic), MatchPolicy: h.Match, Limit: h.Limit})
	}
	rc.Authenticators = buildAuthenticators(cfg)
	if cfg.Authz != nil {
		if e.authzStats == nil {
			e.authzStats = &authzStats{}
		}
		rc.Authorizer = &tableAuthorizer{cfg: cfg.Authz, stats: e.authzStats}
	}
	if e.TweakRealm != nil {
		e.TweakRealm(rc, cfg)
	}
	return rc
}

// Start creates the router. Must run inside the bubble.
func (e *Engine) Start() error {
	e.T0 = time.Now()
	if e.C.GMP > 0 {
		runtime.GOMAXPROCS(e.C.GMP)
	}
	rcfg := &router.Config{}
	for i := range e.C.Realms {
		rcfg.RealmConfigs = append(rcfg.RealmConfigs, e.buildRealm(&e.C.Realms[i]))
	}
	if len(rcfg.RealmConfigs) > 0 {
		e.firstCfg = rcfg.RealmConfigs[0]
	}
	if e.C.Template != nil {
		rcfg.RealmTemplate = e.buildRealm(e.C.Template)
	}
	r, err := router.NewRouter(rcfg, e.Log)
	if err != nil {
		return err
	}
	e.R = r
	for i := range e.C.Sess {
		s := &SimSess{Idx: i, Cfg: e.C.Sess[i], e: e, outq: make(chan sentRec, 4096), quit: make(chan struct{}), pendReq: map[wamp.ID]Op{}}
		e.Sess = append(e.Sess, s)
	}
	e.quiesce()
	e.Baseline = router.VerifSnapshot(r)
	return nil
}

// quiesce waits until the bubble is idle; on the real clock it just gives the
// router a moment.
func (e *Engine) quiesce() {
	if e.Realtime {
		time.Sleep(20 * time.Millisecond)
		return
	}
	synctest.Wait()
}

// resolve turns a reference string into a run-time value (usually a wamp.ID).
func (e *Engine) resolve(self int) func(string) any {
	return func(ref string) any {
		parts := strings.Split(ref, ":")
		atoi := func(i int) int {
			if i >= len(parts) {
				return 0
			}
			n, _ := strconv.Atoi(parts[i])
			return n
		}
		pick := func(who int, tbl func(*SimSess) []idRec, n int) wamp.ID {
			if who < 0 {
				who = self
			}
			if who >= len(e.Sess) {
				return bogusID(n)
			}
			t := tbl(e.Sess[who])
			if len(t) == 0 {
				return bogusID(n)
			}
			if n < 0 {
				return t[len(t)-1].ID // the latest
			}
			return t[n%len(t)].ID
		}
		switch parts[0] {
		case "sid":
			i := atoi(1)
			if i < 0 {
				i = self
			}
			if i < len(e.Sess) && e.Sess[i].SID != 0 {
				return e.Sess[i].SID
			}
			return bogusID(i)
		case "sub":
			return pick(atoi(1), func(s *SimSess) []idRec { return s.Subs }, atoi(2))
		case "reg":
			return pick(atoi(1), func(s *SimSess) []idRec { return s.Regs }, atoi(2))
		case "call":
			return pick(atoi(1), func(s *SimSess) []idRec { return s.Calls }, atoi(2))
		case "inv":
			return pick(atoi(1), func(s *SimSess) []idRec { return s.Invs }, atoi(2))
		case "pub":
			if len(e.Pubs) == 0 {
				return bogusID(atoi(1))
			}
			return e.Pubs[atoi(1)%len(e.Pubs)]
		case "bogus":
			return bogusID(atoi(1))
		case "lit":
			u, _ := strconv.ParseUint(parts[1], 10, 64)
			return wamp.ID(u)
		case "authid":
			i := atoi(1)
			if i < len(e.Sess) && e.Sess[i].Welcome != nil {
				a, _ := wamp.AsString(e.Sess[i].Welcome.Details["authid"])
				return a
			}
			return "nobody"
		}
		return wamp.ID(0)
	}
}

func bogusID(n int) wamp.ID { return wamp.ID(7000000000 + uint64(n)) }

func (e *Engine) refID(self int, ref string) wamp.ID {
	v := e.resolve(self)(ref)
	if id, ok := v.(wamp.ID); ok {
		return id
	}
	return 0
}

func helloFor(cfg *SessCfg) *wamp.Hello {
	roles := wamp.Dict{}
	for role, feats := range cfg.Roles {
		fd := wamp.Dict{}
		for _, f := range feats {
			if strings.HasPrefix(f, "!") {
				fd[f[1:]] = false // a feature listed as false is not announced
				continue
			}
			fd[f] = true
		}
		roles[role] = wamp.Dict{"features": fd}
	}
	d := wamp.Dict{"roles": roles}
	for _, kv := range cfg.Hello {
		d[kv.K] = kv.V.Go()
	}
	if len(cfg.AuthMeth) > 0 {
		l := wamp.List{}
		for _, m := range cfg.AuthMeth {
			l = append(l, m)
		}
		d["authmethods"] = l
	}
	return &wamp.Hello{Realm: wamp.URI(cfg.Realm), Details: d}
}

// buildMsg translates an op into the WAMP message it sends (nil if the op is
// not a message op).
func (e *Engine) buildMsg(op *Op) wamp.Message {
	if op.S < 0 || op.S >= len(e.Sess) {
		return nil
	}
	s := e.Sess[op.S]
	res := e.resolve(op.S)
	opts := KVsToDict(op.Opts, res)
	if opts == nil {
		opts = wamp.Dict{}
	}
	args := VsToList(op.Args, res)
	kw := KVsToDict(op.Kw, res)
	switch op.K {
	case "subscribe":
		if op.Mode != "" {
			opts["match"] = op.Mode
		}
		m := &wamp.Subscribe{Request: s.NextReq(), Options: opts, Topic: wamp.URI(op.URI)}
		s.pendReq[m.Request] = *op
		return m
	case "unsubscribe":
		return &wamp.Unsubscribe{Request: s.NextReq(), Subscription: e.refID(op.S, op.Ref)}
	case "publish":
		return &wamp.Publish{Request: s.NextReq(), Options: opts, Topic: wamp.URI(op.URI), Arguments: args, ArgumentsKw: kw}
	case "register":
		if op.Mode != "" {
			opts["match"] = op.Mode
		}
		m := &wamp.Register{Request: s.NextReq(), Options: opts, Procedure: wamp.URI(op.URI)}
		s.pendReq[m.Request] = *op
		return m
	case "unregister":
		return &wamp.Unregister{Request: s.NextReq(), Registration: e.refID(op.S, op.Ref)}
	case "call":
		var req wamp.ID
		if op.Ref != "" { // continuation chunk of an earlier call
			req = e.refID(op.S, op.Ref)
		} else {
			req = s.NextReq()
			s.Calls = append(s.Calls, idRec{ID: req, URI: op.URI})
		}
		return &wamp.Call{Request: req, Options: opts, Procedure: wamp.URI(op.URI), Arguments: args, ArgumentsKw: kw}
	case "cancel":
		if op.Mode != "" {
			opts["mode"] = op.Mode
		}
		return &wamp.Cancel{Request: e.refID(op.S, op.Ref), Options: opts}
	case "yield":
		return &wamp.Yield{Request: e.refID(op.S, op.Ref), Options: opts, Arguments: args, ArgumentsKw: kw}
	case "error":
		uri := op.Err
		if uri == "" {
			uri = "app.error"
		}
		return &wamp.Error{Type: wamp.INVOCATION, Request: e.refID(op.S, op.Ref), Details: opts, Error: wamp.URI(uri), Arguments: args, ArgumentsKw: kw}
	case "goodbye":
		return &wamp.Goodbye{Reason: wamp.CloseRealm, Details: wamp.Dict{}}
	case "meta":
		req := s.NextReq()
		s.Calls = append(s.Calls, idRec{ID: req, URI: op.URI, Aux: "meta"})
		return &wamp.Call{Request: req, Options: opts, Procedure: wamp.URI(op.URI), Arguments: args, ArgumentsKw: kw}
	case "raw":
		return buildRaw(op.Msg, res)
	case "authresp":
		return e.buildAuthResponse(s, op)
	case "bytes":
		var b []byte
		if len(op.Args) > 0 {
			b, _ = op.Args[0].Go().([]byte)
		}
		return &rawBytesMsg{B: b}
	case "wsframe":
		var b []byte
		if len(op.Args) > 0 {
			b, _ = op.Args[0].Go().([]byte)
		}
		return &rawWSMsg{Type: op.N, B: b}
	}
	return nil
}

// secretOf looks up a configured user's secret in any realm configuration.
func (e *Engine) secretOf(authid string) string {
	cfgs := append([]RealmCfg{}, e.C.Realms...)
	if e.C.Template != nil {
		cfgs = append(cfgs, *e.C.Template)
	}
	for _, r := range cfgs {
		for _, u := range r.Users {
			if u.AuthID == authid {
				return u.Secret
			}
		}
	}
	return ""
}

// buildAuthResponse computes an AUTHENTICATE (or something else) for the last
// CHALLENGE the session received. op.Mode selects the kind of response; op.Err
// names the user whose secret is used (default: the authid the session claimed).
func (e *Engine) buildAuthResponse(s *SimSess, op *Op) wamp.Message {
	ch := s.LastChallenge
	if ch == nil {
		ch = &wamp.Challenge{AuthMethod: "wampcra", Extra: wamp.Dict{"challenge": "none"}}
	}
	user := op.Err
	if user == "" {
		user = s.HelloAuthID
	}
	good := correctResponse(e.secretOf(user), ch)
	key := user + "|" + ch.AuthMethod
	sig := good
	switch op.Mode {
	case "correct":
	case "wrongkey":
		sig = correctResponse("not-the-secret", ch)
	case "replay":
		prev := e.AuthSeen[key]
		sig = ""
		for i := len(prev) - 1; i >= 0; i-- {
			if prev[i] != good {
				sig = prev[i]
				break
			}
		}
		if sig == "" {
			sig = correctResponse("not-the-secret", ch)
		}
	case "bitflip":
		b := []byte(good)
		if len(b) > 2 {
			if b[1] == 'A' {
				b[1] = 'B'
			} else {
				b[1] = 'A'
			}
		}
		sig = string(b)
	case "malformed":
		sig = "%%%not base64 or hex%%%"
	case "wronglen":
		if len(good) > 4 {
			sig = good[:len(good)-4]
		}
	case "empty":
		sig = ""
	case "nonauth":
		return &wamp.Subscribe{Request: s.NextReq(), Options: wamp.Dict{}, Topic: "a.b"}
	}
	if e.AuthSeen == nil {
		e.AuthSeen = map[string][]string{}
	}
	e.AuthSeen[key] = append(e.AuthSeen[key], good)
	return &wamp.Authenticate{Signature: sig, Extra: wamp.Dict{}}
}

// queue hands a message to the session's sender goroutine.
func (e *Engine) queue(s *SimSess, m wamp.Message, opIdx int) {
	if s.lk == nil {
		return
	}
	// account first: the sender goroutine may deliver the message at once
	s.mu.Lock()
	switch x := m.(type) {
	case *wamp.Unsubscribe:
		if s.unsubByReq == nil {
			s.unsubByReq = map[wamp.ID]wamp.ID{}
		}
		s.unsubByReq[x.Request] = x.Subscription
	case *wamp.Unregister:
		if s.unregByReq == nil {
			s.unregByReq = map[wamp.ID]wamp.ID{}
		}
		s.unregByReq[x.Request] = x.Registration
	}
	s.Queued++
	s.queuedAt = append(s.queuedAt, e.Now())
	s.mu.Unlock()
	select {
	case s.outq <- sentRec{S: s.Idx, Msg: m, Op: opIdx}:
	default:
		s.mu.Lock()
		s.Queued--
		s.queuedAt = s.queuedAt[:len(s.queuedAt)-1]
		s.mu.Unlock()
	}
}

// OldestUndelivered returns since when (virtual time) the session's oldest
// message has been waiting for the router to accept it.
func (s *SimSess) OldestUndelivered() (time.Duration, bool) {
	s.mu.Lock()
	defer s.mu.Unlock()
	if len(s.queuedAt) == 0 {
		return 0, false
	}
	return s.queuedAt[0], true
}

// Undelivered reports how many messages of the session the router has not accepted yet.
func (s *SimSess) Undelivered() int {
	s.mu.Lock()
	defer s.mu.Unlock()
	return s.Queued - s.Delivered
}

func (e *Engine) startSession(s *SimSess) {
	if s.Started {
		return
	}
	s.Started = true
	s.lk = newLink(e, s)
	s.senderWG.Add(1)
	go s.sender()
}

// execOp performs the non-waiting part of one op.
func (e *Engine) execOp(idx int, op *Op, st *StepRec) {
	if e.Custom != nil && e.Custom(e, op, idx) {
		return
	}
	switch op.K {
	case "advance":
		// handled by caller (needs the main goroutine to sleep)
		return
	case "join":
		s := e.Sess[op.S]
		if s.Started {
			return
		}
		e.startSession(s)
		e.queue(s, helloFor(&s.Cfg), idx)
		return
	case "skip":
		// consume a request id (and a call-table slot) without sending anything:
		// keeps ids and references aligned with a run in which this op was sent
		s := e.Sess[op.S]
		if s.Started && op.Mode != "cancel" && op.Mode != "yield" && op.Mode != "error" && op.Mode != "goodbye" && op.Mode != "chunk" { // CANCEL reuses the call's request id, YIELD/ERROR carry the invocation's
			req := s.NextReq()
			if op.Mode == "call" || op.Mode == "meta" {
				s.Calls = append(s.Calls, idRec{ID: req, URI: op.URI, Aux: "skipped"})
			}
		}
		return
	case "attach":
		// open the transport (the router starts waiting for HELLO) without sending anything
		e.startSession(e.Sess[op.S])
		return
	case "drop":
		s := e.Sess[op.S]
		if s.lk != nil && !s.Dropped {
			s.Dropped = true
			s.stopSender()
			s.senderWG.Wait() // never close a channel the sender may still be sending on
			s.lk.drop()
		}
		return
	case "stall":
		s := e.Sess[op.S]
		if s.lk != nil {
			s.Stalled = true
			s.lk.pause(true)
		}
		return
	case "resume":
		s := e.Sess[op.S]
		if s.lk != nil {
			s.Stalled = false
			s.lk.pause(false)
		}
		return
	case "router_close":
		if !e.RouterClosed {
			e.RouterClosed = true
			e.CloseDone = make(chan struct{})
			go func() { e.R.Close(); close(e.CloseDone) }()
		}
		return
	case "remove_realm":
		uri := wamp.URI(op.URI)
		done := make(chan struct{})
		e.RemoveDone = append(e.RemoveDone, done)
		go func() { e.R.RemoveRealm(uri); close(done) }()
		return
	case "add_realm":
		for i := range e.C.Realms {
			if e.C.Realms[i].URI == op.URI {
				rc := e.buildRealm(&e.C.Realms[i])
				if reuse, _ := e.C.P["reuse_config"].Go().(bool); reuse && e.firstCfg != nil {
					// an application that keeps one RealmConfig value around: it overwrites the
					// object it once configured the first realm with and hands it in again
					*e.firstCfg = *rc
					rc = e.firstCfg
				}
				go func() { _ = e.R.AddRealm(rc) }()
			}
		}
		return
	}
	if op.S < 0 || op.S >= len(e.Sess) {
		return
	}
	s := e.Sess[op.S]
	if !s.Started {
		return
	}
	m := e.buildMsg(op)
	if m != nil {
		if h, ok := m.(*wamp.Hello); ok {
			s.HelloAuthID, _ = wamp.AsString(h.Details["authid"])
		}
		e.queue(s, m, idx)
	}
}

// settle waits for quiescence, drains all inboxes and records what happened.
func (e *Engine) settle(st *StepRec) {
	nudged := false
	idle := 0
	for round := 0; round < 50; round++ {
		e.quiesce()
		progress := false
		for _, s := range e.Sess {
			if s.lk == nil {
				continue
			}
			s.mu.Lock()
			if len(s.deliv) > 0 {
				st.Sent = append(st.Sent, s.deliv...)
				s.deliv = nil
				progress = true
			}
			s.mu.Unlock()
			if s.Stalled {
				continue
			}
			msgs, closed := s.lk.drain()
			if len(msgs) > 0 {
				progress = true
				if st.Recv == nil {
					st.Recv = map[int][]wamp.Message{}
				}
				st.Recv[s.Idx] = append(st.Recv[s.Idx], msgs...)
				s.All = append(s.All, msgs...)
				for _, m := range msgs {
					e.observe(s, m)
				}
			}
			if closed && !s.Ended {
				s.Ended = true
				st.Closed = append(st.Closed, s.Idx)
				progress = true
			}
		}
		if !progress && e.Realtime {
			idle++
			if idle < 3 {
				continue
			}
			break
		}
		if !progress {
			if e.Nudge && !nudged {
				nudged = true
				time.Sleep(2 * time.Minute)
				continue
			}
			break
		}
	}
	st.T = e.Now()
}

// observe updates the engine's run-time tables (used only to resolve refs).
func (e *Engine) observe(s *SimSess, m wamp.Message) {
	switch m := m.(type) {
	case *wamp.Welcome:
		s.Joined = true
		s.SID = m.ID
		s.Welcome = m
	case *wamp.Abort:
		s.Aborted = true
	case *wamp.Subscribed:
		if op, ok := s.pendReq[m.Request]; ok {
			delete(s.pendReq, m.Request)
			s.Subs = append(s.Subs, idRec{ID: m.Subscription, Req: m.Request, URI: op.URI, Aux: op.Mode})
		}
	case *wamp.Registered:
		if op, ok := s.pendReq[m.Request]; ok {
			delete(s.pendReq, m.Request)
			s.Regs = append(s.Regs, idRec{ID: m.Registration, Req: m.Request, URI: op.URI, Aux: op.Mode})
		}
	case *wamp.Invocation:
		for _, r := range s.Invs {
			if r.ID == m.Request {
				return
			}
		}
		s.Invs = append(s.Invs, idRec{ID: m.Request, Req: m.Registration})
	case *wamp.Published:
		e.Pubs = append(e.Pubs, m.Publication)
	case *wamp.Challenge:
		s.LastChallenge = m
		if rsp := autoAuthenticate(s, m); rsp != nil {
			e.queue(s, rsp, -1)
		}
	}
}

func (e *Engine) newStep(phase string) *StepRec {
	st := &StepRec{N: len(e.Steps), Phase: phase}
	e.Steps = append(e.Steps, st)
	return st
}

// Run executes the whole case. Returns the first violation or nil.
func (e *Engine) Run(o Oracle) *Violation {
	if err := e.Start(); err != nil {
		return &Violation{Reason: "router start failed: " + err.Error(), Step: -1}
	}
	chk := func(v *Violation, st *StepRec) *Violation {
		if v != nil && v.Step == 0 && st != nil {
			v.Step = st.N
		}
		return v
	}
	// Prologue: join sessions one by one.
	for _, s := range e.Sess {
		if s.Cfg.NoJoin {
			continue
		}
		st := e.newStep("join")
		e.startSession(s)
		e.queue(s, helloFor(&s.Cfg), -1)
		e.settle(st)
		e.traceStep(st)
		if v := chk(o.OnStep(e, st), st); v != nil {
			return v
		}
	}
	// Ops.
	for i := 0; i < len(e.C.Ops); {
		st := e.newStep("op")
		op := &e.C.Ops[i]
		if op.K == "advance" {
			st.OpIdx = []int{i}
			if op.Ns > 0 {
				time.Sleep(time.Duration(op.Ns))
			}
			i++
		} else if op.Par {
			// A batch of operations issued at once. An operation with a delay (Ns) is
			// issued by its own goroutine after sleeping that long on the virtual clock:
			// operations with the same delay, and router timers due at that instant, wake
			// up together and race for real.
			var maxDelay time.Duration
			var delayed sync.WaitGroup
			var execMu sync.Mutex
			for i < len(e.C.Ops) && e.C.Ops[i].Par && e.C.Ops[i].K != "advance" {
				st.OpIdx = append(st.OpIdx, i)
				pop, pi := &e.C.Ops[i], i
				if d := time.Duration(pop.Ns); d > 0 {
					if d > maxDelay {
						maxDelay = d
					}
					delayed.Add(1)
					go func() {
						defer delayed.Done()
						time.Sleep(d)
						execMu.Lock()
						e.execOp(pi, pop, st)
						execMu.Unlock()
					}()
				} else {
					execMu.Lock()
					e.execOp(i, pop, st)
					execMu.Unlock()
				}
				i++
			}
			if maxDelay > 0 {
				time.Sleep(maxDelay)
				delayed.Wait()
			}
		} else {
			st.OpIdx = []int{i}
			e.execOp(i, op, st)
			i++
		}
		e.settle(st)
		e.traceStep(st)
		if v := chk(o.OnStep(e, st), st); v != nil {
			return v
		}
	}
	// Epilogue 1: let every armed timer fire while sessions are still attached.
	// Sessions that had stopped reading read again afterwards.
	st := e.newStep("settle")
	time.Sleep(24 * time.Hour)
	for _, s := range e.Sess {
		if s.Stalled && s.lk != nil {
			s.Stalled = false
			s.lk.pause(false)
		}
	}
	e.settle(st)
	e.traceStep(st)
	if v := chk(o.OnStep(e, st), st); v != nil {
		return v
	}
	// Epilogue 2: end all sessions.
	st = e.newStep("drop")
	for _, s := range e.Sess {
		if s.lk != nil && !s.Dropped {
			s.Dropped = true
			s.stopSender()
			s.senderWG.Wait()
			s.lk.drop()
		}
	}
	e.settle(st)
	time.Sleep(time.Hour)
	e.settle(st)
	e.traceStep(st)
	if v := chk(o.OnStep(e, st), st); v != nil {
		return v
	}
	if v := o.OnQuiesced(e); v != nil {
		v.Step = st.N
		return v
	}
	// Epilogue 3: close the router.
	st = e.newStep("close")
	if !e.RouterClosed {
		e.RouterClosed = true
		e.CloseDone = make(chan struct{})
		e.R.Close()
		close(e.CloseDone)
	}
	time.Sleep(24 * time.Hour)
	e.settle(st)
	if v := o.OnClosed(e); v != nil {
		v.Step = st.N
		return v
	}
	return nil
}

// Abandon releases engine goroutines after an early return so that the bubble
// can be left (best effort; the worker is recycled after a violation anyway).
func (e *Engine) Abandon() {
	for _, s := range e.Sess {
		if s.lk != nil && !s.Dropped {
			s.Dropped = true
			s.stopSender()
			s.senderWG.Wait()
			s.lk.drop()
		}
	}
	synctest.Wait()
	// Let every retry/timeout sleeper finish before Close: a handler sleeping
	// on the fake clock while holding up a join (which holds realm.closeLock)
	// would make realm.close() wait on a sync.Mutex, which synctest does not
	// treat as durably blocked - the bubble would hang in real time.
	time.Sleep(2 * time.Hour)
	synctest.Wait()
	if e.R != nil && !e.RouterClosed {
		e.RouterClosed = true
		e.R.Close()
	}
	time.Sleep(48 * time.Hour)
	synctest.Wait()
}

// ---- pretty printing -------------------------------------------------------

func MsgString(m wamp.Message) string {
	if m == nil {
		return "<nil>"
	}
	switch m := m.(type) {
	case *wamp.Hello:
		return fmt.Sprintf("HELLO{%s %s}", m.Realm, Show(Canon(m.Details)))
	case *wamp.Welcome:
		d := wamp.Dict{}
		for k, v := range m.Details {
			if k != "roles" {
				d[k] = v
			}
		}
		return fmt.Sprintf("WELCOME{%d %s}", m.ID, Show(Canon(d)))
	case *wamp.Abort:
		return fmt.Sprintf("ABORT{%s %s}", m.Reason, Show(Canon(m.Details)))
	case *wamp.Challenge:
		return fmt.Sprintf("CHALLENGE{%s %s}", m.AuthMethod, Show(Canon(m.Extra)))
	case *wamp.Authenticate:
		return fmt.Sprintf("AUTHENTICATE{%q %s}", m.Signature, Show(Canon(m.Extra)))
	case *wamp.Goodbye:
		return fmt.Sprintf("GOODBYE{%s %s}", m.Reason, Show(Canon(m.Details)))
	case *wamp.Error:
		return fmt.Sprintf("ERROR{%s req=%d %s %s %s %s}", m.Type, m.Request, m.Error, Show(Canon(m.Details)), Show(Canon(m.Arguments)), Show(Canon(m.ArgumentsKw)))
	case *wamp.Publish:
		return fmt.Sprintf("PUBLISH{req=%d %s %q %s %s}", m.Request, Show(Canon(m.Options)), m.Topic, Show(Canon(m.Arguments)), Show(Canon(m.ArgumentsKw)))
	case *wamp.Published:
		return fmt.Sprintf("PUBLISHED{req=%d pub=%d}", m.Request, m.Publication)
	case *wamp.Subscribe:
		return fmt.Sprintf("SUBSCRIBE{req=%d %s %q}", m.Request, Show(Canon(m.Options)), m.Topic)
	case *wamp.Subscribed:
		return fmt.Sprintf("SUBSCRIBED{req=%d sub=%d}", m.Request, m.Subscription)
	case *wamp.Unsubscribe:
		return fmt.Sprintf("UNSUBSCRIBE{req=%d sub=%d}", m.Request, m.Subscription)
	case *wamp.Unsubscribed:
		return fmt.Sprintf("UNSUBSCRIBED{req=%d}", m.Request)
	case *wamp.Event:
		return fmt.Sprintf("EVENT{sub=%d pub=%d %s %s %s}", m.Subscription, m.Publication, Show(Canon(m.Details)), Show(Canon(m.Arguments)), Show(Canon(m.ArgumentsKw)))
	case *wamp.Call:
		return fmt.Sprintf("CALL{req=%d %s %q %s %s}", m.Request, Show(Canon(m.Options)), m.Procedure, Show(Canon(m.Arguments)), Show(Canon(m.ArgumentsKw)))
	case *wamp.Cancel:
		return fmt.Sprintf("CANCEL{req=%d %s}", m.Request, Show(Canon(m.Options)))
	case *wamp.Result:
		return fmt.Sprintf("RESULT{req=%d %s %s %s}", m.Request, Show(Canon(m.Details)), Show(Canon(m.Arguments)), Show(Canon(m.ArgumentsKw)))
	case *wamp.Register:
		return fmt.Sprintf("REGISTER{req=%d %s %q}", m.Request, Show(Canon(m.Options)), m.Procedure)
	case *wamp.Registered:
		return fmt.Sprintf("REGISTERED{req=%d reg=%d}", m.Request, m.Registration)
	case *wamp.Unregister:
		return fmt.Sprintf("UNREGISTER{req=%d reg=%d}", m.Request, m.Registration)
	case *wamp.Unregistered:
		return fmt.Sprintf("UNREGISTERED{req=%d}", m.Request)
	case *wamp.Invocation:
		return fmt.Sprintf("INVOCATION{req=%d reg=%d %s %s %s}", m.Request, m.Registration, Show(Canon(m.Details)), Show(Canon(m.Arguments)), Show(Canon(m.ArgumentsKw)))
	case *wamp.Interrupt:
		return fmt.Sprintf("INTERRUPT{req=%d %s}", m.Request, Show(Canon(m.Options)))
	case *wamp.Yield:
		return fmt.Sprintf("YIELD{req=%d %s %s %s}", m.Request, Show(Canon(m.Options)), Show(Canon(m.Arguments)), Show(Canon(m.ArgumentsKw)))
	}
	return fmt.Sprintf("%T%+v", m, m)
}

func (e *Engine) traceStep(st *StepRec) {
	if !e.KeepTrace {
		return
	}
	e.Trace = append(e.Trace, fmt.Sprintf("--- step %d (%s) ops=%v t=%v", st.N, st.Phase, st.OpIdx, st.T))
	for _, sr := range st.Sent {
		e.Trace = append(e.Trace, fmt.Sprintf("  s%d -> %s", sr.S, MsgString(sr.Msg)))
	}
	keys := make([]int, 0, len(st.Recv))
	for k := range st.Recv {
		keys = append(keys, k)
	}
	sort.Ints(keys)
	for _, k := range keys {
		for _, m := range st.Recv[k] {
			e.Trace = append(e.Trace, fmt.Sprintf("  s%d <- %s", k, MsgString(m)))
		}
	}
	for _, c := range st.Closed {
		e.Trace = append(e.Trace, fmt.Sprintf("  s%d closed by router", c))
	}
	for _, n := range st.Notes {
		e.Trace = append(e.Trace, "  note: "+n)
	}
}

// serverSerializer returns the router-side serializer for a websocket
// subprotocol: one instance shared by all websocket sessions.
func (e *Engine) serverSerializer(name string) serialize.Serializer {
	e.wsSerMu.Lock()
	defer e.wsSerMu.Unlock()
	if e.wsSer == nil {
		e.wsSer = map[string]serialize.Serializer{}
	}
	if s, ok := e.wsSer[name]; ok {
		return s
	}
	s := serializerFor(name)
	e.wsSer[name] = s
	return s
}
