package harness

// Client ends of the three transports, all in memory so that they run inside a
// synctest bubble: linked local peers, rawsocket over net.Pipe (harness-written
// client codec against the real transport.AcceptRawSocket server side), and
// websocket through an in-memory transport.WebsocketConnection pair against
// the real transport.NewWebsocketPeer.

import (
	"errors"
	"io"
	"net"
	"strings"
	"sync"
	"time"

	"github.com/gammazero/nexus/v3/transport"
	"github.com/gammazero/nexus/v3/transport/serialize"
	"github.com/gammazero/nexus/v3/wamp"
)

func newLink(e *Engine, s *SimSess) link {
	tr := s.Cfg.Transport
	switch {
	case tr == "" || tr == "local":
		return newLocalLink(e, s)
	case tr == "rsraw":
		return newRawBytesLink(e, s)
	case tr == "wsraw-text" || tr == "wsraw-binary":
		return newRawWSLink(e, s, tr)
	case strings.HasPrefix(tr, "rs-"):
		return newRawsocketLink(e, s, tr[3:])
	case strings.HasPrefix(tr, "ws-"):
		return newWebsocketLink(e, s, tr[3:])
	}
	panic("unknown transport " + tr)
}

func serializerFor(name string) serialize.Serializer {
	switch name {
	case "json":
		return &serialize.JSONSerializer{}
	case "msgpack":
		return &serialize.MessagePackSerializer{}
	case "cbor":
		return &serialize.CBORSerializer{}
	}
	panic("unknown serializer " + name)
}

// ---- local ---------------------------------------------------------------

type localLink struct {
	c      wamp.Peer
	paused bool
	closed bool
	dropped bool
	mu     sync.Mutex
	buf    []wamp.Message // filled by the pump while a probe runs
	hasRewriter bool
}

// pump keeps reading the inbox until quit is closed, the way a responsive
// client would, while the engine's main goroutine is busy with a probe.
func (l *localLink) pump(quit <-chan struct{}, done *sync.WaitGroup) {
	defer done.Done()
	for {
		select {
		case m, ok := <-l.c.Recv():
			l.mu.Lock()
			if !ok {
				l.closed = true
				l.mu.Unlock()
				return
			}
			l.buf = append(l.buf, m)
			l.mu.Unlock()
		case <-quit:
			return
		}
	}
}

func newLocalLink(e *Engine, s *SimSess) *localLink {
	c, r := transport.LinkedPeersQSize(s.Cfg.QSize)
	go func() { _ = e.R.Attach(r) }()
	l := &localLink{c: c}
	if s.Cfg.Rewrite {
		l.hasRewriter = true
		go l.rewriter()
	}
	return l
}

// rewriter reads the inbox like an application that owns what it is handed: the
// top level of every EVENT and INVOCATION (first argument, one keyword argument,
// one detail) is rewritten the moment it arrives - possibly while the router is
// still delivering the same publication to others. Ends when the peer is closed.
func (l *localLink) rewriter() {
	for m := range l.c.Recv() {
		switch x := m.(type) {
		case *wamp.Event:
			if len(x.Arguments) > 0 {
				x.Arguments[0] = "rewritten"
			}
			if x.ArgumentsKw != nil {
				x.ArgumentsKw["verif_rewritten"] = true
			}
			if x.Details != nil {
				x.Details["verif_rewritten"] = true
			}
		case *wamp.Invocation:
			if len(x.Arguments) > 0 {
				x.Arguments[0] = "rewritten"
			}
			if x.ArgumentsKw != nil {
				x.ArgumentsKw["verif_rewritten"] = true
			}
			if x.Details != nil {
				x.Details["verif_rewritten"] = true
			}
		}
		l.mu.Lock()
		l.buf = append(l.buf, m)
		l.mu.Unlock()
	}
	l.mu.Lock()
	l.closed = true
	l.mu.Unlock()
}

func (l *localLink) send(m wamp.Message, quit <-chan struct{}) bool {
	select {
	case l.c.Send() <- m:
		return true
	case <-quit:
		return false
	}
}

func (l *localLink) drain() ([]wamp.Message, bool) {
	l.mu.Lock()
	out := l.buf
	l.buf = nil
	closed := l.closed
	l.mu.Unlock()
	if closed || l.hasRewriter {
		return out, closed
	}
	for {
		select {
		case m, ok := <-l.c.Recv():
			if !ok {
				l.closed = true
				return out, true
			}
			out = append(out, m)
		default:
			return out, false
		}
	}
}

func (l *localLink) drop() {
	if !l.dropped {
		l.dropped = true
		l.c.Close()
	}
}

func (l *localLink) pause(on bool) { l.paused = on }

// ---- buffered reader shared by remote links -----------------------------------

type inbuf struct {
	mu     sync.Mutex
	msgs   []wamp.Message
	closed bool
	gate   chan struct{} // closed when not paused
	paused bool
}

func newInbuf() *inbuf {
	g := make(chan struct{})
	close(g)
	return &inbuf{gate: g}
}

func (b *inbuf) put(m wamp.Message) {
	b.mu.Lock()
	b.msgs = append(b.msgs, m)
	b.mu.Unlock()
}

func (b *inbuf) setClosed() {
	b.mu.Lock()
	b.closed = true
	b.mu.Unlock()
}

func (b *inbuf) drain() ([]wamp.Message, bool) {
	b.mu.Lock()
	defer b.mu.Unlock()
	out := b.msgs
	b.msgs = nil
	return out, b.closed
}

func (b *inbuf) waitGate() {
	b.mu.Lock()
	g := b.gate
	b.mu.Unlock()
	<-g
}

func (b *inbuf) pause(on bool) {
	b.mu.Lock()
	defer b.mu.Unlock()
	if on && !b.paused {
		b.paused = true
		b.gate = make(chan struct{})
	} else if !on && b.paused {
		b.paused = false
		close(b.gate)
	}
}

// ---- rawsocket -------------------------------------------------------------

type rawsocketLink struct {
	conn net.Conn
	ser  serialize.Serializer
	in   *inbuf
	ok   bool
	mu   sync.Mutex
	dropped bool
	ready   chan struct{} // closed when the handshake has finished (either way)
	// framing observations for C15
	Pongs [][]byte
}

const rsClientRecvNibble = 0xf

func newRawsocketLink(e *Engine, s *SimSess, ser string) *rawsocketLink {
	cc, sc := net.Pipe()
	l := &rawsocketLink{conn: cc, ser: serializerFor(ser), in: newInbuf(), ready: make(chan struct{})}
	qsize := s.Cfg.QSize
	if qsize == 0 {
		qsize = 64
	}
	go func() {
		peer, err := transport.AcceptRawSocket(sc, e.Log, 0, qsize)
		if err != nil {
			return
		}
		_ = e.R.Attach(peer)
	}()
	var proto byte
	switch ser {
	case "json":
		proto = 1
	case "msgpack":
		proto = 2
	case "cbor":
		proto = 3
	}
	go func() {
		if _, err := cc.Write([]byte{0x7f, rsClientRecvNibble<<4 | proto, 0, 0}); err != nil {
			l.in.setClosed()
			close(l.ready)
			return
		}
		var hs [4]byte
		if _, err := io.ReadFull(cc, hs[:]); err != nil || hs[0] != 0x7f || hs[1]&0xf != proto {
			l.in.setClosed()
			close(l.ready)
			return
		}
		l.mu.Lock()
		l.ok = true
		l.mu.Unlock()
		close(l.ready)
		l.readLoop()
	}()
	return l
}

func (l *rawsocketLink) readLoop() {
	defer l.in.setClosed()
	for {
		l.in.waitGate()
		var h [4]byte
		if _, err := io.ReadFull(l.conn, h[:]); err != nil {
			return
		}
		n := int(h[1])<<16 | int(h[2])<<8 | int(h[3])
		buf := make([]byte, n)
		if _, err := io.ReadFull(l.conn, buf); err != nil {
			return
		}
		switch h[0] & 7 {
		case 0:
			m, err := l.ser.Deserialize(buf)
			if err != nil {
				l.in.put(&badFrame{Err: err.Error(), Raw: buf})
				continue
			}
			l.in.put(m)
		case 2:
			l.mu.Lock()
			l.Pongs = append(l.Pongs, buf)
			l.mu.Unlock()
		}
	}
}

// badFrame is a pseudo message recording an undecodable frame from the router.
type badFrame struct {
	Err string
	Raw []byte
}

func (b *badFrame) MessageType() wamp.MessageType { return wamp.MessageType(-1) }

func (l *rawsocketLink) send(m wamp.Message, quit <-chan struct{}) bool {
	select {
	case <-l.ready:
	case <-quit:
		return false
	}
	b, err := l.ser.Serialize(m)
	if err != nil {
		return true // dropped by the (client side) serializer; nothing reaches the router
	}
	frame := append([]byte{0, byte(len(b) >> 16), byte(len(b) >> 8), byte(len(b))}, b...)
	return l.writeRaw(frame, quit)
}

func (l *rawsocketLink) writeRaw(frame []byte, quit <-chan struct{}) bool {
	done := make(chan error, 1)
	go func() {
		_, err := l.conn.Write(frame)
		done <- err
	}()
	select {
	case err := <-done:
		return err == nil
	case <-quit:
		_ = l.conn.SetWriteDeadline(time.Unix(1, 0))
		<-done
		return false
	}
}

func (l *rawsocketLink) drain() ([]wamp.Message, bool) { return l.in.drain() }
func (l *rawsocketLink) drop() {
	l.mu.Lock()
	d := l.dropped
	l.dropped = true
	l.mu.Unlock()
	if !d {
		_ = l.conn.Close()
	}
}
func (l *rawsocketLink) pause(on bool) { l.in.pause(on) }

// ---- websocket (in-memory WebsocketConnection) ----------------------------------

type wsFrame struct {
	typ  int
	data []byte
}

// memWS is one end of an in-memory websocket connection.
type memWS struct {
	rd      chan wsFrame
	wr      chan wsFrame
	closed  chan struct{}
	peerClosed chan struct{}
	once    *sync.Once
	proto   string
	mu      sync.Mutex
	pingH   func(string) error
	pongH   func(string) error
}

func newMemWSPair(proto string) (*memWS, *memWS) {
	a2b := make(chan wsFrame)
	b2a := make(chan wsFrame)
	ac := make(chan struct{})
	bc := make(chan struct{})
	a := &memWS{rd: b2a, wr: a2b, closed: ac, peerClosed: bc, once: &sync.Once{}, proto: proto}
	b := &memWS{rd: a2b, wr: b2a, closed: bc, peerClosed: ac, once: &sync.Once{}, proto: proto}
	return a, b
}

var errWSClosed = errors.New("websocket: close 1006 (abnormal closure)")

func (w *memWS) Close() error {
	w.once.Do(func() { close(w.closed) })
	return nil
}

func (w *memWS) write(f wsFrame, deadline <-chan time.Time) error {
	select {
	case w.wr <- f:
		return nil
	case <-w.closed:
		return errWSClosed
	case <-w.peerClosed:
		return errWSClosed
	case <-deadline:
		return errors.New("i/o timeout")
	}
}

func (w *memWS) WriteControl(messageType int, data []byte, deadline time.Time) error {
	d := time.Until(deadline)
	if d <= 0 {
		d = time.Nanosecond
	}
	t := time.NewTimer(d)
	defer t.Stop()
	return w.write(wsFrame{messageType, append([]byte(nil), data...)}, t.C)
}

func (w *memWS) WriteMessage(messageType int, data []byte) error {
	return w.write(wsFrame{messageType, append([]byte(nil), data...)}, nil)
}

func (w *memWS) ReadMessage() (int, []byte, error) {
	for {
		select {
		case f := <-w.rd:
			switch f.typ {
			case 9: // ping
				w.mu.Lock()
				h := w.pingH
				w.mu.Unlock()
				if h != nil {
					_ = h(string(f.data))
				} else {
					// what a websocket library does by default: answer with a pong
					t := time.NewTimer(time.Second)
					_ = w.write(wsFrame{10, f.data}, t.C)
					t.Stop()
				}
				continue
			case 10: // pong
				w.mu.Lock()
				h := w.pongH
				w.mu.Unlock()
				if h != nil {
					_ = h(string(f.data))
				}
				continue
			case 8: // close
				return 0, nil, errors.New("websocket: close 1000 (normal)")
			}
			return f.typ, f.data, nil
		case <-w.closed:
			return 0, nil, errWSClosed
		case <-w.peerClosed:
			return 0, nil, errWSClosed
		}
	}
}

func (w *memWS) SetPongHandler(h func(string) error) { w.mu.Lock(); w.pongH = h; w.mu.Unlock() }
func (w *memWS) SetPingHandler(h func(string) error) { w.mu.Lock(); w.pingH = h; w.mu.Unlock() }
func (w *memWS) Subprotocol() string                 { return w.proto }

type websocketLink struct {
	ws      *memWS
	ser     serialize.Serializer
	payload int
	in      *inbuf
}

func newWebsocketLink(e *Engine, s *SimSess, ser string) *websocketLink {
	payload := 2 // binary
	if ser == "json" {
		payload = 1
	}
	cws, sws := newMemWSPair("wamp.2." + ser)
	qsize := s.Cfg.QSize
	if qsize == 0 {
		qsize = 64
	}
	l := &websocketLink{ws: cws, ser: serializerFor(ser), payload: payload, in: newInbuf()}
	go func() {
		peer := transport.NewWebsocketPeer(sws, e.serverSerializer(ser), payload, e.Log, time.Duration(s.Cfg.KeepAlive), qsize)
		if s.Cfg.Cookie != "" || s.Cfg.NextCookie != "" {
			// what WebsocketServer passes along with EnableTrackingCookie
			_ = e.R.AttachClient(peer, wamp.Dict{"type": "websocket", "auth": wamp.Dict{"cookie": s.Cfg.Cookie, "nextcookie": s.Cfg.NextCookie}})
			return
		}
		if s.Cfg.TransportAuth {
			// what WebsocketServer passes along when cookie tracking / request capture is on
			_ = e.R.AttachClient(peer, wamp.Dict{"type": "websocket", "auth": wamp.Dict{"cookie": "SECRET-COOKIE", "nextcookie": "SECRET-NEXT", "request": "SECRET-REQUEST"}})
			return
		}
		_ = e.R.Attach(peer)
	}()
	go func() {
		defer l.in.setClosed()
		for {
			l.in.waitGate()
			_, data, err := cws.ReadMessage()
			if err != nil {
				return
			}
			m, err := l.ser.Deserialize(data)
			if err != nil {
				l.in.put(&badFrame{Err: err.Error(), Raw: data})
				continue
			}
			l.in.put(m)
		}
	}()
	return l
}

func (l *websocketLink) send(m wamp.Message, quit <-chan struct{}) bool {
	b, err := l.ser.Serialize(m)
	if err != nil {
		return true
	}
	select {
	case l.ws.wr <- wsFrame{l.payload, b}:
		return true
	case <-quit:
		return false
	case <-l.ws.closed:
		return false
	case <-l.ws.peerClosed:
		return false
	}
}

func (l *websocketLink) drain() ([]wamp.Message, bool) { return l.in.drain() }
func (l *websocketLink) drop()                         { _ = l.ws.Close() }
func (l *websocketLink) pause(on bool)                 { l.in.pause(on) }


// ---- raw byte links (C04/C15 wire-level generators) ------------------------------

// rawBytesLink is a rawsocket connection whose every byte, including the
// handshake, comes from the case. Whatever the server writes is drained.
type rawBytesLink struct {
	conn    net.Conn
	mu      sync.Mutex
	got     []byte
	closed  bool
	dropped bool
}

func newRawBytesLink(e *Engine, s *SimSess) *rawBytesLink {
	cc, sc := net.Pipe()
	l := &rawBytesLink{conn: cc}
	qsize := s.Cfg.QSize
	if qsize == 0 {
		qsize = 64
	}
	recvLimit := s.Cfg.RecvLimit
	go func() {
		peer, err := transport.AcceptRawSocket(sc, e.Log, recvLimit, qsize)
		if err != nil {
			return
		}
		_ = e.R.Attach(peer)
	}()
	go func() {
		buf := make([]byte, 4096)
		for {
			n, err := cc.Read(buf)
			l.mu.Lock()
			l.got = append(l.got, buf[:n]...)
			if len(l.got) > 1<<20 {
				l.got = l.got[len(l.got)-(1<<20):]
			}
			if err != nil {
				l.closed = true
				l.mu.Unlock()
				return
			}
			l.mu.Unlock()
		}
	}()
	return l
}

type rawBytesMsg struct{ B []byte }

func (r *rawBytesMsg) MessageType() wamp.MessageType { return wamp.MessageType(-2) }

func (l *rawBytesLink) send(m wamp.Message, quit <-chan struct{}) bool {
	rb, ok := m.(*rawBytesMsg)
	if !ok {
		return true
	}
	done := make(chan error, 1)
	go func() {
		_, err := l.conn.Write(rb.B)
		done <- err
	}()
	select {
	case err := <-done:
		return err == nil
	case <-quit:
		_ = l.conn.SetWriteDeadline(time.Unix(1, 0))
		<-done
		return false
	}
}

func (l *rawBytesLink) drain() ([]wamp.Message, bool) {
	l.mu.Lock()
	defer l.mu.Unlock()
	return nil, l.closed
}

func (l *rawBytesLink) received() []byte {
	l.mu.Lock()
	defer l.mu.Unlock()
	return append([]byte(nil), l.got...)
}

func (l *rawBytesLink) drop() {
	l.mu.Lock()
	d := l.dropped
	l.dropped = true
	l.mu.Unlock()
	if !d {
		_ = l.conn.Close()
	}
}
func (l *rawBytesLink) pause(bool) {}

// rawWSLink sends arbitrary websocket frames (type + payload) to a real websocketPeer.
type rawWSLink struct {
	ws     *memWS
	closed bool
	mu     sync.Mutex
}

type rawWSMsg struct {
	Type int
	B    []byte
}

func (r *rawWSMsg) MessageType() wamp.MessageType { return wamp.MessageType(-3) }

func newRawWSLink(e *Engine, s *SimSess, tr string) *rawWSLink {
	payload, ser := 2, "msgpack"
	if tr == "wsraw-text" {
		payload, ser = 1, "json"
	}
	if s.Cfg.Serializer != "" {
		ser = s.Cfg.Serializer
	}
	cws, sws := newMemWSPair("wamp.2." + ser)
	l := &rawWSLink{ws: cws}
	qsize := s.Cfg.QSize
	if qsize == 0 {
		qsize = 64
	}
	go func() {
		peer := transport.NewWebsocketPeer(sws, e.serverSerializer(ser), payload, e.Log, time.Duration(s.Cfg.KeepAlive), qsize)
		_ = e.R.Attach(peer)
	}()
	go func() {
		for {
			if _, _, err := cws.ReadMessage(); err != nil {
				l.mu.Lock()
				l.closed = true
				l.mu.Unlock()
				return
			}
		}
	}()
	return l
}

func (l *rawWSLink) send(m wamp.Message, quit <-chan struct{}) bool {
	rm, ok := m.(*rawWSMsg)
	if !ok {
		return true
	}
	select {
	case l.ws.wr <- wsFrame{rm.Type, rm.B}:
		return true
	case <-quit:
		return false
	case <-l.ws.closed:
		return false
	case <-l.ws.peerClosed:
		return false
	}
}
func (l *rawWSLink) drain() ([]wamp.Message, bool) {
	l.mu.Lock()
	defer l.mu.Unlock()
	return nil, l.closed
}
func (l *rawWSLink) drop()      { _ = l.ws.Close() }
func (l *rawWSLink) pause(bool) {}
