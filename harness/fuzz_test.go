package harness

// Native coverage-guided fuzz targets (thorough tier). Each target turns the
// fuzzer's bytes into an ordinary Case and judges it with the property's own
// oracle, so a crasher converts into the same replay file the rapid shards
// write (TestFuzzToCase) and replays with ./check <ID> --replay.

import (
	"bytes"
	"encoding/json"
	"os"
	"strconv"
	"strings"
	"testing"

	"github.com/gammazero/nexus/v3/wamp"
)

var fuzzSerializers = []string{"json", "msgpack", "cbor"}

func sampleMessages() []wamp.Message {
	return []wamp.Message{
		&wamp.Hello{Realm: "r1", Details: wamp.Dict{"roles": fullRolesDict()}},
		&wamp.Subscribe{Request: 1, Options: wamp.Dict{"match": "prefix"}, Topic: "a.b"},
		&wamp.Publish{Request: 2, Options: wamp.Dict{"acknowledge": true, "ppt_scheme": "x_a", "ppt_serializer": "cbor"}, Topic: "a.b", Arguments: wamp.List{[]byte{1, 2}}, ArgumentsKw: wamp.Dict{"k": 1.5}},
		&wamp.Call{Request: 3, Options: wamp.Dict{"timeout": 50, "receive_progress": true}, Procedure: "wamp.session.get", Arguments: wamp.List{int64(1) << 53}},
		&wamp.Register{Request: 4, Options: wamp.Dict{"invoke": "roundrobin"}, Procedure: "a.b"},
		&wamp.Yield{Request: 5, Options: wamp.Dict{"progress": true}, Arguments: wamp.List{"x"}},
		&wamp.Error{Type: wamp.INVOCATION, Request: 6, Details: wamp.Dict{}, Error: "a.error", Arguments: wamp.List{nil}},
		&wamp.Event{Subscription: 1001, Publication: 1, Details: wamp.Dict{"ppt_scheme": "x_a", "ppt_serializer": "json"}, Arguments: wamp.List{[]byte("{}")}},
		&wamp.Invocation{Request: 1, Registration: 1002, Details: wamp.Dict{"receive_progress": true, "timeout": 1}, Arguments: wamp.List{1}},
		&wamp.Result{Request: 3, Details: wamp.Dict{"progress": true}, Arguments: wamp.List{3, 1}},
		&wamp.Interrupt{Request: 1, Options: wamp.Dict{"mode": "kill"}},
		&wamp.Goodbye{Reason: "wamp.close.close_realm", Details: wamp.Dict{}},
		&wamp.Abort{Reason: "wamp.error.protocol_violation", Details: wamp.Dict{}},
		&wamp.Cancel{Request: 3, Options: wamp.Dict{"mode": "skip"}},
	}
}

// caseFromFuzz is the only place where fuzzer bytes become a Case.
func caseFromFuzz(target string, mode byte, data []byte) *Case {
	switch target {
	case "FuzzC14Deserialize":
		return &Case{Prop: "C14", P: map[string]V{"kind": VStr("bytes"), "ser": VStr(fuzzSerializers[int(mode)%3]), "b": VBin(data)}}
	case "FuzzC04Wire":
		c := &Case{Prop: "C04", Realms: []RealmCfg{{URI: "r1", Anonymous: true, AllowDisclose: true, MetaKill: true, MetaModify: true,
			History: []HistCfg{{Topic: "a.b", Limit: 2}}}}}
		c.Sess = []SessCfg{{Realm: "r1", Roles: fullRoles()}, {Realm: "r1", Roles: fullRoles()}, {Realm: "r1", NoJoin: true}}
		w := &c.Sess[2]
		c.Ops = []Op{{K: "subscribe", S: 0, URI: "a.b", Mode: "prefix"}, {K: "register", S: 1, URI: "a.b"}, {K: "attach", S: 2}}
		switch mode % 4 {
		case 0, 1:
			w.Transport = "rsraw"
			if mode%4 == 1 {
				w.RecvLimit = 512
			}
			// split once so that a message may straddle two writes
			cut := 0
			if len(data) > 0 {
				cut = int(mode/4) % (len(data) + 1)
			}
			c.Ops = append(c.Ops, Op{K: "bytes", S: 2, Args: []V{VBin(data[:cut])}, N: 777}, Op{K: "bytes", S: 2, Args: []V{VBin(data[cut:])}, N: 777})
		case 2:
			w.Transport = "wsraw-text"
			for _, fr := range bytes.Split(data, []byte{'\n'}) {
				c.Ops = append(c.Ops, Op{K: "wsframe", S: 2, N: 1, Args: []V{VBin(fr)}})
			}
		default:
			w.Transport = "wsraw-binary"
			// frames: 1 length byte, then payload
			for len(data) > 0 && len(c.Ops) < 12 {
				n := int(data[0])
				data = data[1:]
				if n > len(data) {
					n = len(data)
				}
				c.Ops = append(c.Ops, Op{K: "wsframe", S: 2, N: 2, Args: []V{VBin(data[:n])}})
				data = data[n:]
			}
		}
		return c
	case "FuzzC17Inbound":
		c := &Case{Prop: "C17", P: map[string]V{"cancelmode": VStr(""), "features": VStr([]string{"full", "noppt", "none"}[int(mode)%3])}}
		now := []KV{{"reply", VStr("now")}}
		c.Ops = []Op{
			{K: "subscribe", S: 0, N: 1, Par: true, Opts: now},
			{K: "register", S: 0, N: 2, Par: true, Opts: append([]KV{{"handler", VStr([]string{"fast", "wait", "progress", "ctxwait"}[int(mode/3)%4])}}, now...)},
			{K: "call", S: 1, N: 3, Par: true, Opts: []KV{{"reply", VStr("delay")}, {"delay", VI64(int64(rigRT))}, {"progress", VInt(2)}, {"cancelreply", VStr("error")}}},
			{K: "call", S: 2, N: 4, Par: true, Opts: []KV{{"reply", VStr("never")}, {"ctx", VStr("cancel")}, {"ctxns", VI64(int64(rigRT) / 2)}, {"cancelreply", VStr("none")}}},
			{K: "publish", S: 2, N: 5, Par: true, Opts: now},
		}
		at := int64(1)
		for _, line := range bytes.Split(data, []byte{'\n'}) {
			if len(c.Ops) > 40 {
				break
			}
			c.Ops = append(c.Ops, Op{K: "rjson", S: -1, Ns: at, Args: []V{VBin(line)}})
			at += int64(rigRT) / 8
		}
		return c
	}
	return nil
}

func fuzzJudge(t *testing.T, c *Case) {
	v := runCaseInBubble(t, c, false)
	switch v.Kind {
	case "violation", "crash", "deadlock", "leak":
		t.Fatalf("%s %s: %s", c.Prop, v.Kind, v.Reason)
	}
}

func FuzzC14Deserialize(f *testing.F) {
	for i, name := range fuzzSerializers {
		s := serializerFor(name)
		for _, m := range sampleMessages() {
			if b, err := s.Serialize(m); err == nil {
				f.Add(byte(i), b)
			}
		}
	}
	f.Fuzz(func(t *testing.T, mode byte, data []byte) {
		if len(data) > 1<<16 {
			return
		}
		fuzzJudge(t, caseFromFuzz("FuzzC14Deserialize", mode, data))
	})
}

func FuzzC04Wire(f *testing.F) {
	protos := map[string]byte{"json": 1, "msgpack": 2, "cbor": 3}
	for _, name := range fuzzSerializers {
		var stream []byte
		stream = append(stream, 0x7f, 0xf0|protos[name], 0, 0)
		for _, m := range sampleMessages()[:7] {
			stream = append(stream, frameRS(0, serializeWith(name, m), 0)...)
		}
		stream = append(stream, frameRS(1, []byte("ping"), 0)...)
		f.Add(byte(0), stream)
		f.Add(byte(1), stream)
	}
	var text, bin []byte
	for _, m := range sampleMessages()[:7] {
		text = append(append(text, serializeWith("json", m)...), '\n')
		b := serializeWith("msgpack", m)
		if len(b) < 256 {
			bin = append(append(bin, byte(len(b))), b...)
		}
	}
	f.Add(byte(2), text)
	f.Add(byte(3), bin)
	f.Fuzz(func(t *testing.T, mode byte, data []byte) {
		if len(data) > 1<<14 {
			return
		}
		fuzzJudge(t, caseFromFuzz("FuzzC04Wire", mode, data))
	})
}

func FuzzC17Inbound(f *testing.F) {
	var lines []byte
	for _, m := range sampleMessages()[6:] {
		lines = append(append(lines, serializeWith("json", m)...), '\n')
	}
	for mode := 0; mode < 12; mode++ {
		f.Add(byte(mode), lines)
	}
	f.Add(byte(0), []byte(`[36,1001,5,{"ppt_scheme":"x_a","ppt_serializer":3},[1]]`+"\n"+`[68,7,1002,{"ppt_scheme":"wamp","ppt_serializer":"cbor"},[]]`+"\n"+`[50,3,{"progress":true},[3,1]]`))
	f.Fuzz(func(t *testing.T, mode byte, data []byte) {
		if len(data) > 1<<13 {
			return
		}
		fuzzJudge(t, caseFromFuzz("FuzzC17Inbound", mode, data))
	})
}

// TestFuzzToCase converts a native corpus/crasher file into a replay file.
func TestFuzzToCase(t *testing.T) {
	path, target, out := os.Getenv("VERIF_FUZZ_FILE"), os.Getenv("VERIF_FUZZ_TARGET"), os.Getenv("VERIF_FUZZ_OUT")
	if path == "" {
		t.Skip("conversion entry point")
	}
	raw, err := os.ReadFile(path)
	if err != nil {
		t.Fatal(err)
	}
	ls := strings.Split(strings.TrimSpace(string(raw)), "\n")
	if len(ls) != 3 || !strings.HasPrefix(ls[0], "go test fuzz v1") {
		t.Fatalf("not a corpus file with two values: %q", ls)
	}
	unq := func(l, prefix string) string {
		l = strings.TrimSuffix(strings.TrimPrefix(l, prefix+"("), ")")
		s, err := strconv.Unquote(l)
		if err != nil {
			t.Fatalf("cannot parse %q: %v", l, err)
		}
		return s
	}
	ms := unq(ls[1], "byte")
	data := unq(ls[2], "[]byte")
	mode := byte(0)
	if len(ms) > 0 {
		r := []rune(ms)
		mode = byte(r[0])
		if len(ms) == 1 {
			mode = ms[0]
		}
	}
	c := caseFromFuzz(target, mode, []byte(data))
	if c == nil {
		t.Fatalf("unknown target %q", target)
	}
	b, _ := json.MarshalIndent(map[string]any{"case": c, "verdict": map[string]any{"kind": "crash", "reason": "found by native fuzzing target " + target}}, "", " ")
	if err := os.WriteFile(out, b, 0o644); err != nil {
		t.Fatal(err)
	}
}
