package harness

// C09 — only authenticated clients join, under router-assigned identity.
// Generator: realm authentication configurations x scripted handshakes with
// adversarial elements. Oracle: an acceptance model (who must / must not be
// welcomed) with its own verification of challenge responses (crypto/hmac,
// crypto/ed25519), plus an observer session that watches on_join, session.list
// and session.get.

import (
	"crypto/ed25519"
	"crypto/hmac"
	"crypto/sha256"
	"encoding/base64"
	"encoding/hex"
	"fmt"
	"sort"
	"strings"

	"golang.org/x/crypto/pbkdf2"

	"github.com/gammazero/nexus/v3/wamp"
	"pgregory.net/rapid"
)

func init() {
	register(&Property{
		ID: "C09",
		Rule: "rapid-generated realm authentication configurations (every subset of anonymous/ticket/wampcra (plain or salted)/cryptosign plus a static test authenticator, static or template-created realm, RequireLocalAuth on/off, local and serialised peers) " +
			"and scripted handshakes: first message of any type; HELLO with existing/unknown/empty/invalid realm, roles none/garbage/valid, authmethods lists of any order with unknown and ill-typed entries, authid known/unknown/missing, smuggled authrole/authmethod/authprovider/session; " +
			"on CHALLENGE a response that is correct, signed with a wrong key, correct for another user, replayed from an earlier handshake of the same case, bit-flipped, malformed, of wrong length, empty, a non-AUTHENTICATE message, or silence until the timeout; ordinary requests afterwards. " +
			"Oracle: WELCOME only if the acceptance model allows it - for challenge methods the oracle itself verifies the response against this handshake's challenge (HMAC-SHA256 / Ed25519) - and WELCOME whenever valid credentials for the first offered configured method were presented; after ABORT nothing of the peer is routed or listed; " +
			"the observer's on_join event and wamp.session.get show the WELCOME's session id and the authenticator's authid/authrole/authmethod/authprovider, never the smuggled values. Non-trivial = a handshake that reached an authenticator with an adversarial element; distinct = case hash",
		Gen:       genC09,
		NewOracle: func(c *Case) Oracle { return newC09Oracle(c) },
		Assumptions: []string{
			"in-process peers on a realm without RequireLocalAuth are welcomed as trusted/local/static without an authenticator (documented router policy) and may choose their own authid",
			"ticket authentication is static by nature: the replay clause is applied to wampcra and cryptosign",
			"cryptographic soundness of HMAC-SHA256 / Ed25519 is assumed; the check shows acceptance is bound to this handshake's challenge and the stored key",
		},
	})
}

var c09Users = []UserCfg{{AuthID: "alice", Role: "admin", Secret: "alice-secret"}, {AuthID: "bob", Role: "user", Secret: "bob-secret"}, {AuthID: "obs", Role: "observer", Secret: "obs-secret"},
	{AuthID: "carol", Secret: "carol-secret", NoRole: true}} // a user with credentials but no role on record

func genC09(t *rapid.T) *Case {
	var auths []string
	for _, a := range []string{"ticket", "cryptosign"} {
		if pct(t, 55, "auth:"+a) {
			auths = append(auths, a)
		}
	}
	switch uni(t, 3, "cra") {
	case 0:
		auths = append(auths, "wampcra")
	case 1:
		auths = append(auths, "wampcra-salted")
	}
	auths = append(auths, "static")
	rc := RealmCfg{URI: "r1", Anonymous: pct(t, 40, "anon"), RequireLocalAuth: pct(t, 50, "rla"), Auths: auths, Users: c09Users, Strict: pct(t, 20, "strict"), CookieAuth: pct(t, 25, "cookieauth")}
	c := &Case{Realms: []RealmCfg{rc}}
	if pct(t, 35, "template") {
		tc := rc
		tc.URI = "template"
		c.Template = &tc
	}
	// observer
	c.Sess = append(c.Sess, SessCfg{Realm: "r1", Roles: fullRoles(), AuthMeth: []string{"static"}, Hello: []KV{{"authid", VStr("obs")}}})
	c.Ops = append(c.Ops, Op{K: "subscribe", S: 0, URI: "wamp.session.on_join"}, Op{K: "subscribe", S: 0, URI: "verif.canary"})
	ncand := 1 + uni(t, 3, "ncand")
	for i := 1; i <= ncand; i++ {
		s := SessCfg{Realm: "r1", NoJoin: true}
		if pct(t, 55, "remote") {
			s.Transport = pick(t, remoteTransports, "tr")
		}
		if rc.CookieAuth && pct(t, 75, "cookies") {
			// a websocket client with tracking cookies: few values, so that a later
			// candidate presents the cookie an earlier one was handed
			s.Transport = pick(t, []string{"ws-json", "ws-msgpack", "ws-cbor"}, "cookietr")
			s.Cookie = pick(t, []string{"", "c1", "c2"}, "cookie")
			s.NextCookie = pick(t, []string{"c1", "c2", "c1"}, "nextcookie")
		}
		c.Sess = append(c.Sess, s)
		native := s.Transport == ""
		c.Ops = append(c.Ops, Op{K: "attach", S: i})
		// first message
		if pct(t, 10, "nothello") {
			c.Ops = append(c.Ops, Op{K: "raw", S: i, Msg: genRawMsgNot(t, 1, native), N: 777})
		}
		realm := pick(t, []string{"r1", "r1", "r1", "r1", "r1", "r1", "r1", "nosuch", "", "bad realm#", "r2"}, "realm")
		var details []KV
		switch uni(t, 14, "roles") {
		case 0:
		case 1:
			details = append(details, KV{"roles", genHostileValue(t, native)})
		case 2:
			details = append(details, KV{"roles", VDict(KV{"bogusrole", VDict()})})
		default:
			details = append(details, KV{"roles", VDict(KV{pick(t, []string{"caller", "callee", "publisher", "subscriber"}, "role"), VDict(KV{"features", VDict()})}, KV{"publisher", VDict()})})
		}
		// authmethods
		var am []V
		nm := uni(t, 4, "nmeth")
		if pct(t, 55, "configuredmethod") {
			// lead with a challenge method the realm is configured for, so that the
			// handshake reaches an authenticator
			var chal []V
			for _, a := range auths {
				switch a {
				case "ticket", "cryptosign", "wampcra":
					chal = append(chal, VStr(a))
				case "wampcra-salted":
					chal = append(chal, VStr("wampcra"))
				}
			}
			if len(chal) > 0 {
				am = append(am, pick(t, chal, "cmeth"))
			}
		}
		for j := 0; j < nm; j++ {
			am = append(am, pick(t, []V{VStr("anonymous"), VStr("ticket"), VStr("wampcra"), VStr("cryptosign"), VStr("static"), VStr("bogus"), VStr(""), VI64(5), VNil(), VStr("wampcra"), VStr("ticket")}, "meth"))
		}
		if len(am) > 0 || pct(t, 20, "emptymethods") {
			details = append(details, KV{"authmethods", VList(am...)})
		}
		if pct(t, 4, "hostilemethods") {
			details = append(details, KV{"authmethods", genHostileValue(t, native)})
		}
		authid := pick(t, []string{"alice", "alice", "bob", "mallory", "", "carol", "alice"}, "authid")
		if authid != "" {
			details = append(details, KV{"authid", VStr(authid)})
		} else if pct(t, 30, "hostileauthid") {
			details = append(details, KV{"authid", genHostileValue(t, native)})
		}
		for _, k := range []string{"authrole", "authmethod", "authprovider", "session"} {
			if pct(t, 25, "smuggle:"+k) {
				details = append(details, KV{k, pick(t, []V{VStr("admin"), VStr("trusted"), VStr("static"), VI64(1), VID(12345)}, "smuggled")})
			}
		}
		c.Ops = append(c.Ops, Op{K: "raw", S: i, Msg: &RawMsg{Type: 1, Fields: []V{VURI(realm), V{T: "dict", K: details}}}, N: 777})
		// response to a possible challenge
		kind := pick(t, []string{"correct", "correct", "correct", "wrongkey", "otheruser", "replay", "replay", "bitflip", "malformed", "wronglen", "empty", "nonauth", "nonauth", "silence"}, "resp")
		switch kind {
		case "silence":
			c.Ops = append(c.Ops, Op{K: "advance", Ns: pick(t, []int64{59e9, 60e9, 61e9}, "silence")})
			if pct(t, 50, "late") {
				c.Ops = append(c.Ops, Op{K: "authresp", S: i, Mode: "correct"})
			}
		case "otheruser":
			other := "bob"
			if authid == "bob" {
				other = "alice"
			}
			c.Ops = append(c.Ops, Op{K: "authresp", S: i, Mode: "correct", Err: other})
		default:
			c.Ops = append(c.Ops, Op{K: "authresp", S: i, Mode: kind})
			if kind == "nonauth" && pct(t, 50, "pipelined") {
				// the client does not wait for the CHALLENGE: HELLO and the next message are
				// written back to back
				c.Ops[len(c.Ops)-2].Par = true
				c.Ops[len(c.Ops)-1].Par = true
			}
		}
		// ordinary requests regardless of the outcome
		c.Ops = append(c.Ops, Op{K: "publish", S: i, URI: "verif.canary", Opts: []KV{{"acknowledge", VBool(true)}}, Args: []V{VInt(i)}})
		if pct(t, 50, "query") {
			c.Ops = append(c.Ops, Op{K: "meta", S: 0, URI: "wamp.session.list"})
		}
		if pct(t, 30, "leave") {
			c.Ops = append(c.Ops, Op{K: pick(t, []string{"goodbye", "drop"}, "leavekind"), S: i})
		}
	}
	c.Ops = append(c.Ops, Op{K: "meta", S: 0, URI: "wamp.session.list"})
	return c
}

func genRawMsgNot(t *rapid.T, not int, native bool) *RawMsg {
	for {
		m := genRawMsg(t, 1, native)
		if m.Type != not {
			return m
		}
	}
}

// ---- oracle ---------------------------------------------------------------------

type cand struct {
	idx        int
	firstSeen  bool
	firstHello *wamp.Hello
	notHello   bool
	challenge  *wamp.Challenge
	response   wamp.Message // first message after the challenge
	outcome    string       // "", "welcome", "abort"
	welcome    *wamp.Welcome
	judged     bool
	ended      bool
	expectJoin bool
}

type c09Oracle struct {
	baseOracle
	c     *Case
	cands map[int]*cand
	obsSubJoin wamp.ID
	obsSubCanary wamp.ID
	joinsSeen map[wamp.ID]wamp.Dict
	metaReq map[wamp.ID]bool
	jar     map[string]string // realm|cookie -> authid of the user that was handed it after authenticating
}

func newC09Oracle(c *Case) *c09Oracle {
	return &c09Oracle{c: c, cands: map[int]*cand{}, joinsSeen: map[wamp.ID]wamp.Dict{}, metaReq: map[wamp.ID]bool{}, jar: map[string]string{}}
}

func (o *c09Oracle) fail(st *StepRec, format string, a ...any) *Violation {
	return &Violation{Prop: "C09", Step: st.N, Reason: fmt.Sprintf(format, a...)}
}

func userByID(id string) (UserCfg, bool) {
	for _, u := range c09Users {
		if u.AuthID == id {
			return u, true
		}
	}
	return UserCfg{}, false
}

// validResponse: the oracle's own verification of a challenge response.
func validResponse(cfg *RealmCfg, authid string, ch *wamp.Challenge, rsp wamp.Message) bool {
	a, ok := rsp.(*wamp.Authenticate)
	if !ok {
		return false
	}
	u, known := userByID(authid)
	if !known {
		return false
	}
	switch ch.AuthMethod {
	case "ticket":
		return a.Signature == u.Secret
	case "wampcra":
		chal, _ := wamp.AsString(ch.Extra["challenge"])
		key := []byte(u.Secret)
		if salt, _ := wamp.AsString(ch.Extra["salt"]); salt != "" {
			dk := pbkdf2.Key([]byte(u.Secret), []byte(ksSalt), ksIters, ksKeyLen, sha256.New)
			key = []byte(base64.StdEncoding.EncodeToString(dk))
		}
		mac := hmac.New(sha256.New, key)
		mac.Write([]byte(chal))
		sig, err := base64.StdEncoding.DecodeString(a.Signature)
		return err == nil && hmac.Equal(sig, mac.Sum(nil))
	case "cryptosign":
		chHex, _ := wamp.AsString(ch.Extra["challenge"])
		chal, err1 := hex.DecodeString(chHex)
		sig, err2 := hex.DecodeString(a.Signature)
		if err1 != nil || err2 != nil || len(sig) != 96 {
			return false
		}
		pub, _ := edKeys(u.Secret)
		return ed25519.Verify(ed25519.PublicKey(pub), chal, sig[:64]) && string(sig[64:]) == string(chal)
	}
	return false
}

// jarKey: realms created from the realm template share the template's
// authenticators and therefore one key store (one cookie jar); a statically
// configured realm has its own.
func (o *c09Oracle) jarKey(realm string) string {
	for i := range o.c.Realms {
		if o.c.Realms[i].URI == realm {
			return realm
		}
	}
	return "<template>"
}

func (o *c09Oracle) realmFor(name string) (*RealmCfg, bool) {
	for i := range o.c.Realms {
		if o.c.Realms[i].URI == name {
			return &o.c.Realms[i], true
		}
	}
	if o.c.Template != nil {
		if v, _ := modelValidURI(name, o.c.Template.Strict, ""); v && name != "" {
			return o.c.Template, true
		}
	}
	return nil, false
}

func hasAuth(cfg *RealmCfg, method string) bool {
	if method == "anonymous" {
		return cfg.Anonymous
	}
	for _, a := range cfg.Auths {
		if a == method || (method == "wampcra" && a == "wampcra-salted") {
			return true
		}
	}
	return false
}

// expectation for a finished handshake: "welcome", "abort", or "either" (outside the model)
func (o *c09Oracle) expect(cd *cand, local bool) (string, string) {
	if cd.notHello || cd.firstHello == nil {
		return "abort", "first message is not HELLO"
	}
	h := cd.firstHello
	cfg, ok := o.realmFor(string(h.Realm))
	if !ok {
		return "abort", "realm does not exist"
	}
	roles, _ := wamp.AsDict(h.Details["roles"])
	hasRole := false
	for _, r := range []string{"publisher", "subscriber", "caller", "callee"} {
		if _, ok := roles[r]; ok {
			hasRole = true
		}
	}
	if !hasRole {
		return "abort", "no client role announced"
	}
	if local && !cfg.RequireLocalAuth {
		return "welcome", "in-process peer, local authentication not required"
	}
	var methods []string
	switch h.Details["authmethods"].(type) {
	case nil, wamp.List, []any:
	default:
		// a value that is not a list reaches the router in a transport-dependent form
		return "either", "authmethods of a non-list type"
	}
	if l, ok := wamp.AsList(h.Details["authmethods"]); ok {
		for _, x := range l {
			if s, ok := wamp.AsString(x); ok && s != "" {
				methods = append(methods, s)
			}
		}
		if len(l) == 0 {
			methods = []string{"anonymous"}
		}
	} else if _, present := h.Details["authmethods"]; present {
		return "either", "authmethods of a non-list type"
	} else {
		methods = []string{"anonymous"}
	}
	if len(methods) == 0 {
		return "abort", "no usable authentication method offered"
	}
	method := ""
	for _, m := range methods {
		if hasAuth(cfg, m) {
			method = m
			break
		}
	}
	if method == "" {
		return "abort", "no offered method is configured"
	}
	authid, _ := wamp.AsString(h.Details["authid"])
	_, known := userByID(authid)
	switch method {
	case "anonymous":
		return "welcome", "anonymous allowed"
	case "static":
		if known {
			return "welcome", "static user"
		}
		return "abort", "unknown static user"
	}
	if authid == "" {
		return "abort", "challenge method without authid"
	}
	if u, ok := userByID(authid); ok && u.NoRole && method == "cryptosign" {
		return "either", "cryptosign user without a role on record"
	}
	if cfg.CookieAuth && (method == "ticket" || method == "wampcra") {
		sc := &o.c.Sess[cd.idx]
		if sc.Cookie != "" && o.jar[o.jarKey(string(h.Realm))+"|"+sc.Cookie] == authid {
			return "welcome", "recognised by the tracking cookie handed to this user after an earlier authentication"
		}
	}
	if cd.challenge == nil {
		if method == "cryptosign" && !known {
			return "abort", "unknown cryptosign user"
		}
		// a challenge method welcomes nobody who was not challenged (the tracking-cookie
		// bypass was handled above)
		return "abort", "no challenge was issued in this handshake"
	}
	if cd.response == nil {
		return "abort", "no response to the challenge"
	}
	if validResponse(cfg, authid, cd.challenge, cd.response) {
		return "welcome", "valid response for this handshake's challenge"
	}
	return "abort", "response does not verify against this handshake's challenge"
}

func (o *c09Oracle) OnStep(e *Engine, st *StepRec) *Violation {
	if st.Phase == "drop" || st.Phase == "close" {
		return nil
	}
	// observer bookkeeping
	for _, m := range st.Recv[0] {
		switch x := m.(type) {
		case *wamp.Subscribed:
			if o.obsSubJoin == 0 {
				o.obsSubJoin = x.Subscription
			} else if o.obsSubCanary == 0 {
				o.obsSubCanary = x.Subscription
			}
		case *wamp.Event:
			if x.Subscription == o.obsSubJoin && len(x.Arguments) > 0 {
				if d, ok := wamp.AsDict(x.Arguments[0]); ok {
					if id, ok := wamp.AsID(d["session"]); ok {
						o.joinsSeen[id] = d
					}
				}
			}
		}
	}
	for _, sr := range st.Sent {
		if sr.S == 0 {
			continue
		}
		cd := o.cands[sr.S]
		if cd == nil {
			cd = &cand{idx: sr.S}
			o.cands[sr.S] = cd
		}
		if cd.outcome != "" {
			continue
		}
		if !cd.firstSeen {
			cd.firstSeen = true
			if h, ok := sr.Msg.(*wamp.Hello); ok {
				cd.firstHello = h
			} else {
				cd.notHello = true
			}
			continue
		}
		if cd.challenge != nil && cd.response == nil {
			cd.response = sr.Msg
		}
	}
	// candidate observations
	idxs := make([]int, 0, len(st.Recv))
	for k := range st.Recv {
		idxs = append(idxs, k)
	}
	sort.Ints(idxs)
	for _, s := range idxs {
		if s == 0 {
			continue
		}
		cd := o.cands[s]
		if cd == nil {
			cd = &cand{idx: s}
			o.cands[s] = cd
		}
		for _, m := range st.Recv[s] {
			switch x := m.(type) {
			case *wamp.Challenge:
				if cd.challenge == nil {
					cd.challenge = x
					o.st.Label("challenge:" + x.AuthMethod)
				}
			case *wamp.Welcome:
				if cd.outcome == "" {
					cd.outcome, cd.welcome = "welcome", x
				}
			case *wamp.Abort:
				if cd.outcome == "" {
					cd.outcome = "abort"
				}
			}
		}
	}
	for _, s := range st.Closed {
		if cd := o.cands[s]; cd != nil {
			if cd.outcome == "" {
				cd.outcome = "abort"
			}
			cd.ended = true // closed by the router (aborted, killed or protocol violation after joining)
		}
	}
	// judge finished handshakes
	for _, s := range sortedCands(o.cands) {
		cd := o.cands[s]
		if cd.outcome == "" || cd.judged {
			continue
		}
		cd.judged = true
		local := e.Sess[s].Cfg.Transport == ""
		want, why := o.expect(cd, local)
		o.st.Label("handshake:" + cd.outcome)
		if cd.challenge != nil {
			o.st.NonTrivial = true
		}
		switch {
		case want == "abort" && cd.outcome == "welcome":
			return o.fail(st, "session %d was sent WELCOME although it must not be attached: %s (HELLO %s; challenge %s; response %s)", s, why, msgOrNil(cd.firstHello), msgOrNil(cd.challenge), msgOrNil(cd.response))
		case want == "welcome" && cd.outcome == "abort":
			return o.fail(st, "session %d was refused although it presented valid credentials: %s (HELLO %s; challenge %s; response %s)\n%s", s, why, msgOrNil(cd.firstHello), msgOrNil(cd.challenge), msgOrNil(cd.response), bubbleStacks())
		}
		if cd.outcome == "welcome" && cd.firstHello != nil {
			// the key store notes the next tracking cookie for a user that was authenticated by it
			if cfg, ok := o.realmFor(string(cd.firstHello.Realm)); ok && cfg.CookieAuth && cd.welcome != nil {
				if m, _ := wamp.AsString(cd.welcome.Details["authmethod"]); m == "ticket" || m == "wampcra" {
					if nc := e.Sess[s].Cfg.NextCookie; nc != "" {
						id, _ := wamp.AsString(cd.welcome.Details["authid"])
						o.jar[o.jarKey(string(cd.firstHello.Realm))+"|"+nc] = id
						o.st.Label("tracking_cookie_recorded")
					}
				}
			}
		}
		if cd.outcome == "welcome" {
			if v := o.checkIdentity(e, st, cd, local); v != nil {
				return v
			}
		}
	}
	// nothing an unattached peer sends is routed: canary events only from welcomed sessions
	for _, m := range st.Recv[0] {
		ev, ok := m.(*wamp.Event)
		if !ok || ev.Subscription != o.obsSubCanary || len(ev.Arguments) == 0 {
			continue
		}
		who, _ := wamp.AsInt64(ev.Arguments[0])
		cd := o.cands[int(who)]
		if cd == nil || cd.outcome != "welcome" {
			return o.fail(st, "a publication of session %d was routed although that peer was never welcomed", who)
		}
		o.st.Label("canary_from_welcomed")
	}
	// session.list answers list exactly the welcomed, not yet ended sessions (+ observer)
	for _, sr := range st.Sent {
		if c, ok := sr.Msg.(*wamp.Call); ok && sr.S == 0 && c.Procedure == "wamp.session.list" {
			o.metaReq[c.Request] = true
		}
		if sr.S != 0 {
			switch sr.Msg.(type) {
			case *wamp.Goodbye:
				if cd := o.cands[sr.S]; cd != nil {
					cd.ended = true
				}
			}
		}
	}
	for _, oi := range st.OpIdx {
		if op := &e.C.Ops[oi]; op.K == "drop" {
			if cd := o.cands[op.S]; cd != nil {
				cd.ended = true
			}
		}
	}
	for _, m := range st.Recv[0] {
		r, ok := m.(*wamp.Result)
		if !ok || !o.metaReq[r.Request] || len(r.Arguments) != 1 {
			continue
		}
		var want []wamp.ID
		want = append(want, e.Sess[0].SID)
		for _, s := range sortedCands(o.cands) {
			cd := o.cands[s]
			if cd.outcome == "welcome" && !cd.ended && cd.welcome != nil && realmOf(cd) == "r1" {
				want = append(want, cd.welcome.ID)
			}
		}
		if !idSetEq(r.Arguments[0], want) {
			return o.fail(st, "wamp.session.list = %s, but the welcomed and still attached sessions of the realm are %v", Show(Canon(r.Arguments[0])), want)
		}
		o.st.Label("session_list_checked")
	}
	return nil
}

func realmOf(cd *cand) string {
	if cd.firstHello == nil {
		return ""
	}
	return string(cd.firstHello.Realm)
}

func sortedCands(m map[int]*cand) []int {
	var out []int
	for k := range m {
		out = append(out, k)
	}
	sort.Ints(out)
	return out
}

func msgOrNil(m wamp.Message) string {
	if m == nil || (fmt.Sprintf("%v", m) == "<nil>") {
		return "<none>"
	}
	return MsgString(m)
}

// checkIdentity: the identity recorded for a welcomed session comes from the router/authenticator.
func (o *c09Oracle) checkIdentity(e *Engine, st *StepRec, cd *cand, local bool) *Violation {
	w := cd.welcome
	h := cd.firstHello
	cfg, _ := o.realmFor(string(h.Realm))
	wd := w.Details
	method, _ := wamp.AsString(wd["authmethod"])
	role, _ := wamp.AsString(wd["authrole"])
	authid, _ := wamp.AsString(wd["authid"])
	provider, _ := wamp.AsString(wd["authprovider"])
	claimed, _ := wamp.AsString(h.Details["authid"])
	switch {
	case local && !cfg.RequireLocalAuth:
		if role != "trusted" || method != "local" || provider != "static" {
			return o.fail(st, "in-process session %d welcomed with authrole=%q authmethod=%q authprovider=%q; expected the router-assigned trusted/local/static", cd.idx, role, method, provider)
		}
	case method == "anonymous":
		if role != "anonymous" {
			return o.fail(st, "anonymous session %d welcomed with authrole %q", cd.idx, role)
		}
	default:
		u, known := userByID(claimed)
		if known && u.NoRole && authid == u.AuthID && (role == "" || role == "user") {
			// no role on record: the authenticator's default ("" for ticket, "user" for wampcra)
			o.st.Label("welcomed_user_without_role")
		} else if !known || authid != u.AuthID || role != u.Role {
			return o.fail(st, "session %d welcomed as authid=%q authrole=%q via %s, but the key store says user %q has role %q", cd.idx, authid, role, method, claimed, u.Role)
		}
	}
	// smuggled values must not survive
	for _, k := range []string{"authrole", "authmethod", "authprovider"} {
		if sv, ok := h.Details[k]; ok {
			s, _ := wamp.AsString(sv)
			got, _ := wamp.AsString(wd[k])
			want := map[string]string{"authrole": role, "authmethod": method, "authprovider": provider}[k]
			if got != want {
				return o.fail(st, "WELCOME.%s = %q", k, got)
			}
			_ = s
		}
	}
	if string(h.Realm) != "r1" {
		return nil // the observer lives in r1
	}
	// the observer's on_join shows the same identity
	j, ok := o.joinsSeen[w.ID]
	if !ok {
		// the on_join may arrive in this very step
		for _, m := range st.Recv[0] {
			if ev, ok := m.(*wamp.Event); ok && ev.Subscription == o.obsSubJoin && len(ev.Arguments) > 0 {
				if d, ok := wamp.AsDict(ev.Arguments[0]); ok && idEq(d["session"], w.ID) {
					j = d
				}
			}
		}
	}
	if j == nil {
		return o.fail(st, "session %d was welcomed with id %d but the observer saw no wamp.session.on_join for that id", cd.idx, w.ID)
	}
	for k, want := range map[string]string{"authid": authid, "authrole": role, "authmethod": method, "authprovider": provider} {
		if got, _ := wamp.AsString(j[k]); got != want {
			return o.fail(st, "on_join of session %d shows %s=%q, the router/authenticator assigned %q (HELLO details: %s)", cd.idx, k, got, want, Show(Canon(h.Details)))
		}
	}
	if strings.Contains(Show(Canon(j)), "SECRET") {
		return o.fail(st, "on_join exposes transport authentication data: %s", Show(Canon(j)))
	}
	o.st.Label("identity_checked")
	return nil
}
