package harness

// C20 — event history returns the retained publications, and only those.

import (
	"fmt"
	"github.com/gammazero/nexus/v3/wamp"
	"time"

	"pgregory.net/rapid"
)

func init() {
	register(&Property{
		ID: "C20",
		Rule: "rapid-generated histories on a realm with 1-3 event-history configurations (exact/prefix/wildcard, limit 1-5, overlapping): acknowledged publications one virtual second apart to matching and non-matching topics, " +
			"some restricted by exclude/eligible, subscriber churn (subscribe, unsubscribe, leave, nobody subscribed), and wamp.subscription.get_events queries through local and serialised sessions with every filter combination " +
			"(limit, reverse, four time bounds, four publication-id bounds, topic); judged by a bounded-deque reference model. Non-trivial = a query after the ring wrapped or after a subscriber came or went; distinct = case hash",
		Gen: genC20,
		NewOracle: func(c *Case) Oracle {
			var b *brokerPart
			var d *dealerPart
			o := newComposite(c, "C20", func(w *World) []Part {
				b = newBrokerPart(w)
				d = newDealerPart(w)
				d.handledProcs["wamp.subscription.get_events"] = true
				h := newHistoryPart(w, b, bubbleEpoch)
				return []Part{b, d, h}
			})
			// In-process subscribers own the EVENT they were handed and may rewrite it. Every
			// step's deliveries to in-process sessions are rewritten at the top level (first
			// argument, one keyword argument, one detail) after they have been judged: the
			// retained history must keep the original publication.
			o.afterStep = func(e *Engine, st *StepRec) *Violation {
				for k, ms := range st.Recv {
					if k >= len(o.w.sess) || !o.w.sess[k].local {
						continue
					}
					for _, m := range ms {
						if x, ok := m.(*wamp.Event); ok && !isMetaEvent(x) {
							if len(x.Arguments) > 0 {
								x.Arguments[0] = "rewritten by a subscriber"
							}
							if x.ArgumentsKw != nil {
								x.ArgumentsKw["verif_rewritten"] = true
							}
							if x.Details != nil {
								x.Details["verif_rewritten"] = k
							}
							o.st.Label("local_subscriber_rewrote_event")
						}
					}
				}
				return nil
			}
			o.finishStats = func(st *CaseStats) {
				st.NonTrivial = st.Labels["history_query_after_wrap"] > 0 || (st.Labels["history_query"] > 0 && (st.Labels["ended_with_subscription"] > 0 || st.Labels["unsubscribe_own"] > 0))
			}
			return o
		},
		Assumptions: []string{
			"publications are spaced one virtual second apart so RFC3339 time bounds are exact",
			"grey zones: limit together with reverse (window at either end accepted); a publication-id bound whose entry is outside the time/topic-filtered store; topic filter on an exact-policy history; unacknowledged publications without receivers (id unobservable)",
		},
	})
}

// the synctest fake clock starts here
var bubbleEpoch = time.Date(2000, 1, 1, 0, 0, 0, 0, time.UTC)

type c20Gen struct {
	nsess    int
	hist     []HistCfg
	clock    int // virtual seconds elapsed
	npub     int // acknowledged publications so far (index into "pub:n")
	pubAt    []int
	pubTopic []string // topic of publication n ("" when it carried a receiver restriction)
	nsubs    map[int]int
	gone     map[int]bool // sessions that have left (their later operations are not sent)
}

func (g *c20Gen) histTopic(t *rapid.T) string {
	h := pick(t, g.hist, "whichhist")
	tmp := rpcGen{}
	return tmp.uriFor(t, &gReg{uri: h.Topic, class: policyClass(h.Match)})
}

func (g *c20Gen) ops(t *rapid.T) []Op {
	s := uni(t, g.nsess, "s")
	if g.gone == nil {
		g.gone = map[int]bool{}
	}
	if g.gone[s] {
		// prefer a session that is still there (keeps the publication index exact)
		for i := 0; i < g.nsess; i++ {
			if !g.gone[i] {
				s = i
				break
			}
		}
	}
	switch k := uni(t, 100, "k"); {
	case k < 14:
		h := pick(t, g.hist, "subhist")
		g.nsubs[s]++
		return []Op{{K: "subscribe", S: s, URI: h.Topic, Mode: h.Match}}
	case k < 20:
		return []Op{{K: "unsubscribe", S: s, Ref: fmt.Sprintf("sub:-1:%d", uni(t, 3, "n"))}}
	case k < 23:
		if s == 0 {
			return []Op{{K: "advance", Ns: 1}} // session 0 keeps the subscription ids the queries refer to
		}
		g.gone[s] = true
		return []Op{{K: pick(t, []string{"goodbye", "drop"}, "leave"), S: s}}
	case k < 62:
		op := Op{K: "publish", S: s, Opts: []KV{{"acknowledge", VBool(true)}}, Args: genArgs(t, valOpts{}), Kw: genKw(t, valOpts{})}
		if pct(t, 85, "match") {
			op.URI = g.histTopic(t)
		} else {
			op.URI = genTopic(t)
		}
		if pct(t, 12, "restricted") {
			op.Opts = append(op.Opts, KV{pick(t, []string{"exclude", "eligible"}, "rk"), genSessRefList(t, g.nsess, "r")})
		}
		if pct(t, 8, "authfilter") {
			op.Opts = append(op.Opts, KV{"exclude_authid", VList(VStr("zz"))})
		}
		if pct(t, 20, "exclme") {
			op.Opts = append(op.Opts, KV{"exclude_me", VBool(false)})
		}
		if g.gone[s] {
			return []Op{op} // nobody left to send it
		}
		g.pubAt = append(g.pubAt, g.clock)
		if _, r1 := optGet(op.Opts, "exclude"); r1 {
			g.pubTopic = append(g.pubTopic, "")
		} else if _, r2 := optGet(op.Opts, "eligible"); r2 {
			g.pubTopic = append(g.pubTopic, "")
		} else {
			g.pubTopic = append(g.pubTopic, op.URI)
		}
		g.npub++
		g.clock++
		return []Op{op, {K: "advance", Ns: 1e9}}
	default:
		// query
		op := Op{K: "meta", S: s, URI: "wamp.subscription.get_events"}
		var retained []int // publications probably retained by the queried history, oldest first
		if pct(t, 85, "knownsub") {
			// session 0 subscribed to every history topic first, in order
			hn := uni(t, len(g.hist), "hn")
			op.Args = []V{VRef(fmt.Sprintf("sub:0:%d", hn))}
			h := g.hist[hn]
			for i, tp := range g.pubTopic {
				if tp != "" && modelMatches(tp, h.Topic, policyClass(h.Match)) {
					retained = append(retained, i)
				}
			}
			if len(retained) > h.Limit {
				retained = retained[len(retained)-h.Limit:]
			}
		} else {
			op.Args = []V{VRef(fmt.Sprintf("sub:%d:%d", uni(t, g.nsess, "owner"), uni(t, 3, "n")))}
		}
		if pct(t, 5, "bogussub") {
			op.Args = []V{VRef("bogus:2")}
		}
		intV := func(n int64) V {
			switch uni(t, 3, "ity") {
			case 0:
				return VInt(int(n))
			case 1:
				return VI64(n)
			}
			return VU64(uint64(n))
		}
		if pct(t, 40, "limit") {
			op.Kw = append(op.Kw, KV{"limit", intV(int64(1 + uni(t, 5, "lim")))})
		}
		if pct(t, 25, "reverse") {
			op.Kw = append(op.Kw, KV{"reverse", VBool(rapid.Bool().Draw(t, "rev"))})
		}
		ts := func() V {
			c := g.clock - uni(t, 6, "back")
			if c < 0 {
				c = 0
			}
			return VStr(bubbleEpoch.Add(time.Duration(c) * time.Second).Format(time.RFC3339))
		}
		for _, k := range []string{"from_time", "after_time", "before_time", "until_time"} {
			if pct(t, 12, k) {
				op.Kw = append(op.Kw, KV{k, ts()})
			}
		}
		pubRef := func() V {
			n := 0
			if len(retained) > 0 && pct(t, 92, "retainedpub") {
				// a publication this history retains (bounds outside the store are grey)
				n = pick(t, retained, "pret")
			} else if g.npub > 0 {
				n = g.npub - 1 - uni(t, min(g.npub, 5), "pback")
			}
			r := VRef(fmt.Sprintf("pub:%d", n))
			return r
		}
		// at most one lower and one upper publication bound (two on one side
		// are outside the statement; counted when redirected)
		// (bounds that name no retained publication are grey: mostly drawn when the store has entries)
		boundPct := 22
		if len(retained) == 0 {
			boundPct = 3
		}
		if pct(t, boundPct, "lowerpub") {
			op.Kw = append(op.Kw, KV{pick(t, []string{"from_publication", "after_publication"}, "lk"), pubRef()})
		}
		if pct(t, boundPct, "upperpub") {
			op.Kw = append(op.Kw, KV{pick(t, []string{"before_publication", "until_publication"}, "uk"), pubRef()})
		}
		if pct(t, 14, "topicf") {
			if len(retained) > 0 && pct(t, 70, "retainedtopic") {
				op.Kw = append(op.Kw, KV{"topic", VStr(g.pubTopic[pick(t, retained, "tret")])})
			} else {
				op.Kw = append(op.Kw, KV{"topic", VStr(g.histTopic(t))})
			}
		}
		if len(retained) >= 2 && pct(t, 8, "crossfilter") {
			// a publication bound together with a topic filter that rules the bounding
			// publication itself out
			op.Kw = nil
			b := pick(t, retained, "xbound")
			var others []string
			for _, r := range retained {
				if g.pubTopic[r] != g.pubTopic[b] {
					others = append(others, g.pubTopic[r])
				}
			}
			if len(others) > 0 {
				op.Kw = append(op.Kw, KV{pick(t, []string{"from_publication", "after_publication", "before_publication", "until_publication"}, "xk"), VRef(fmt.Sprintf("pub:%d", b))},
					KV{"topic", VStr(pick(t, others, "xtopic"))})
			}
		}
		if pct(t, 4, "hostile") {
			op.Kw = append(op.Kw, pick(t, []KV{{"limit", VI64(0)}, {"limit", VStr("3")}, {"reverse", VStr("yes")}, {"from_time", VStr("yesterday")}, {"from_publication", VStr("x")}, {"limit", VF64(2)}}, "hk"))
		}
		return []Op{op}
	}
}

func genC20(t *rapid.T) *Case {
	nh := 1 + uni(t, 3, "nhist")
	var hist []HistCfg
	seen := map[string]bool{}
	for i := 0; i < nh; i++ {
		m := pick(t, []string{"", "exact", "prefix", "wildcard", "prefix"}, "hm")
		h := HistCfg{Topic: genPattern(t, m), Match: m, Limit: 1 + uni(t, 5, "hl")}
		if (m == "prefix" && h.Topic == "") || (m == "wildcard" && h.Topic == "..") {
			// would also retain the router's own wamp.* meta events, which the
			// history model does not generate: redirected by construction
			genExcluded("c20_history_pattern_matching_meta_topics")
			h.Topic = "a"
		}
		k := policyClass(m) + "|" + h.Topic
		if seen[k] {
			continue
		}
		seen[k] = true
		hist = append(hist, h)
	}
	c := &Case{Realms: []RealmCfg{{URI: "r1", Anonymous: true, History: hist}}}
	n := 2 + uni(t, 3, "nsess")
	for i := 0; i < n; i++ {
		s := SessCfg{Realm: "r1", Roles: fullRoles()}
		if pct(t, 45, "remote") {
			s.Transport = pick(t, remoteTransports, "tr")
		}
		c.Sess = append(c.Sess, s)
	}
	g := &c20Gen{nsess: n, hist: hist, nsubs: map[int]int{}}
	// somebody learns the subscription ids first
	for _, h := range hist {
		c.Ops = append(c.Ops, Op{K: "subscribe", S: 0, URI: h.Topic, Mode: h.Match})
	}
	chunks := rapid.SliceOfN(rapid.Custom(func(t *rapid.T) []Op { return g.ops(t) }), minHistory(t, 30), 30).Draw(t, "ops")
	for _, ch := range chunks {
		c.Ops = append(c.Ops, ch...)
	}
	return c
}
