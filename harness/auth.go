package harness

import (
	"crypto/ed25519"
	"crypto/sha256"
	"encoding/base64"
	"encoding/hex"
	"errors"
	"strings"
	"sync"

	"golang.org/x/crypto/pbkdf2"

	"github.com/gammazero/nexus/v3/router/auth"
	"github.com/gammazero/nexus/v3/wamp"
	"github.com/gammazero/nexus/v3/wamp/crsign"
)

// staticAuth is a test authenticator (method "static") implementing the public
// auth.Authenticator interface: it welcomes any client whose HELLO authid is a
// configured user and assigns that user's role. It gives C01/C12 a way to vary
// authrole without a challenge round trip.
type staticAuth struct {
	users map[string]UserCfg
}

func (a *staticAuth) AuthMethod() string { return "static" }

func (a *staticAuth) Authenticate(sid wamp.ID, details wamp.Dict, client wamp.Peer) (*wamp.Welcome, error) {
	authid, _ := wamp.AsString(details["authid"])
	u, ok := a.users[authid]
	if !ok {
		return nil, errors.New("unknown user")
	}
	return &wamp.Welcome{Details: wamp.Dict{
		"authid":       authid,
		"authrole":     u.Role,
		"authprovider": "verif",
		"authmethod":   "static",
	}}, nil
}

// keyStore implements auth.KeyStore over the realm's generated users.
type keyStore struct {
	users  map[string]UserCfg
	salted bool
}

const (
	ksSalt   = "pepper"
	ksIters  = 10
	ksKeyLen = 16
)

func (k *keyStore) AuthKey(authid, authmethod string) ([]byte, error) {
	u, ok := k.users[authid]
	if !ok {
		return nil, errors.New("no such user")
	}
	switch authmethod {
	case "wampcra":
		if k.salted {
			dk := pbkdf2.Key([]byte(u.Secret), []byte(ksSalt), ksIters, ksKeyLen, sha256.New)
			return []byte(base64.StdEncoding.EncodeToString(dk)), nil
		}
		return []byte(u.Secret), nil
	case "ticket":
		return []byte(u.Secret), nil
	case "cryptosign":
		pub, _ := edKeys(u.Secret)
		return pub, nil
	}
	return nil, errors.New("unsupported method")
}

func (k *keyStore) PasswordInfo(authid string) (string, int, int) {
	if k.salted {
		return ksSalt, ksKeyLen, ksIters
	}
	return "", 0, 0
}

func (k *keyStore) AuthRole(authid string) (string, error) {
	u, ok := k.users[authid]
	if !ok {
		return "", errors.New("no such user")
	}
	if u.NoRole {
		return "", errors.New("no role on record")
	}
	return u.Role, nil
}

// cookieJar: which tracking cookie belongs to which authenticated user.
type cookieJar struct {
	mu sync.Mutex
	m  map[string]string
}

// bypassKeyStore is a keyStore that also implements auth.BypassKeyStore the way
// the nexus documentation describes it: a client presenting the tracking cookie
// that was handed to an authenticated user is recognised as that user.
type bypassKeyStore struct {
	keyStore
	jar *cookieJar
}

func transportAuth(details wamp.Dict, key string) string {
	tr, _ := wamp.AsDict(details["transport"])
	au, _ := wamp.AsDict(tr["auth"])
	v, _ := wamp.AsString(au[key])
	return v
}

func (b *bypassKeyStore) AlreadyAuth(authid string, details wamp.Dict) bool {
	c := transportAuth(details, "cookie")
	if c == "" {
		return false
	}
	b.jar.mu.Lock()
	defer b.jar.mu.Unlock()
	return b.jar.m[c] == authid
}

func (b *bypassKeyStore) OnWelcome(authid string, welcome *wamp.Welcome, details wamp.Dict) error {
	if n := transportAuth(details, "nextcookie"); n != "" {
		b.jar.mu.Lock()
		b.jar.m[n] = authid
		b.jar.mu.Unlock()
	}
	return nil
}

func (k *keyStore) Provider() string { return "verif" }

// edKeys derives a deterministic ed25519 key pair from a secret string.
func edKeys(secret string) (pub []byte, priv ed25519.PrivateKey) {
	seed := sha256.Sum256([]byte("verif-ed25519:" + secret))
	priv = ed25519.NewKeyFromSeed(seed[:])
	return []byte(priv.Public().(ed25519.PublicKey)), priv
}

func buildAuthenticators(cfg *RealmCfg) []auth.Authenticator {
	users := map[string]UserCfg{}
	for _, u := range cfg.Users {
		users[u.AuthID] = u
	}
	var out []auth.Authenticator
	jar := &cookieJar{m: map[string]string{}}
	ks := func(salted bool) auth.KeyStore {
		if cfg.CookieAuth {
			return &bypassKeyStore{keyStore: keyStore{users: users, salted: salted}, jar: jar}
		}
		return &keyStore{users: users, salted: salted}
	}
	for _, a := range cfg.Auths {
		switch a {
		case "static":
			out = append(out, &staticAuth{users: users})
		case "ticket":
			out = append(out, auth.NewTicketAuthenticator(ks(false), 0))
		case "wampcra":
			out = append(out, auth.NewCRAuthenticator(ks(false), 0))
		case "wampcra-salted":
			out = append(out, auth.NewCRAuthenticator(ks(true), 0))
		case "cryptosign":
			out = append(out, auth.NewCryptoSignAuthenticator(&keyStore{users: users}, 0))
		}
	}
	return out
}

// autoAuthenticate answers a CHALLENGE correctly for sessions that carry a
// secret (used by properties where the handshake is not the subject).
func autoAuthenticate(s *SimSess, c *wamp.Challenge) wamp.Message {
	if s.Cfg.Secret == "" {
		return nil
	}
	return &wamp.Authenticate{Signature: correctResponse(s.Cfg.Secret, c), Extra: wamp.Dict{}}
}

func correctResponse(secret string, c *wamp.Challenge) string {
	switch c.AuthMethod {
	case "ticket":
		return secret
	case "wampcra":
		return crsign.RespondChallenge(secret, c, nil)
	case "cryptosign":
		chHex, _ := wamp.AsString(c.Extra["challenge"])
		ch, _ := hex.DecodeString(chHex)
		_, priv := edKeys(secret)
		sig := ed25519.Sign(priv, ch)
		return hex.EncodeToString(append(sig, ch...))
	}
	return ""
}

// ---- table authorizer (C10) ------------------------------------------------

type authzStats struct {
	mu       sync.Mutex
	Calls    int
	Meta     int            // calls for the meta session (must stay 0)
	ByAuthID map[string]int // consultations per authid
	Log      []string
}

type tableAuthorizer struct {
	cfg   *AuthzCfg
	stats *authzStats
}

func msgURI(m wamp.Message) string {
	switch m := m.(type) {
	case *wamp.Publish:
		return string(m.Topic)
	case *wamp.Subscribe:
		return string(m.Topic)
	case *wamp.Call:
		return string(m.Procedure)
	case *wamp.Register:
		return string(m.Procedure)
	}
	return ""
}

func setMsgURI(m wamp.Message, u string) {
	switch m := m.(type) {
	case *wamp.Publish:
		m.Topic = wamp.URI(u)
	case *wamp.Subscribe:
		m.Topic = wamp.URI(u)
	case *wamp.Call:
		m.Procedure = wamp.URI(u)
	case *wamp.Register:
		m.Procedure = wamp.URI(u)
	}
}

func (cfg *AuthzCfg) decide(msgType, uri, authid string) *AuthzRule {
	for i := range cfg.Rules {
		r := &cfg.Rules[i]
		if r.Msg != "" && r.Msg != msgType {
			continue
		}
		if r.URI != "" && r.URI != uri {
			continue
		}
		if r.AuthID != "" && r.AuthID != authid {
			continue
		}
		return r
	}
	return nil
}

func (a *tableAuthorizer) Authorize(sess *wamp.Session, m wamp.Message) (bool, error) {
	a.stats.mu.Lock()
	a.stats.Calls++
	if sess.ID == 1 {
		a.stats.Meta++
	}
	authid, _ := wamp.AsString(sess.Details["authid"])
	if a.stats.ByAuthID == nil {
		a.stats.ByAuthID = map[string]int{}
	}
	a.stats.ByAuthID[authid]++
	a.stats.mu.Unlock()
	r := a.cfg.decide(strings.ToUpper(m.MessageType().String()), msgURI(m), authid)
	if r == nil {
		return true, nil
	}
	switch r.Act {
	case "deny":
		return false, nil
	case "fail":
		return false, errors.New("authorizer failed")
	case "rewrite":
		setMsgURI(m, r.NewURI)
		return true, nil
	case "scribble":
		sess.Details["scribble"] = "x"
		return true, nil
	}
	return true, nil
}
