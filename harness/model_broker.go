package harness

// Reference broker model (C01, reused by C05 C10 C11 C15 C18): live
// subscriptions keyed by (realm, policy class, topic) with member sets, the
// publication filter rules, and the exact EVENT/PUBLISHED/ERROR expectations.

import (
	"fmt"
	"sort"
	"strings"

	"github.com/gammazero/nexus/v3/wamp"
)

type mSub struct {
	id      wamp.ID
	realm   string
	topic   string
	class   string
	members map[int]bool
	created int // step of creation
}

type brokerPart struct {
	subs    map[string]*mSub // realm|class|topic
	byID    map[string]*mSub // realm|id
	touched map[string]bool
	// hooks for other parts (meta events in C18): called on effective changes
	onCreate      func(st *StepRec, s int, sub *mSub)
	onSubscribe   func(st *StepRec, s int, sub *mSub)
	onUnsubscribe func(st *StepRec, s int, sub *mSub, byLeave bool)
	onDelete      func(st *StepRec, s int, sub *mSub)
	// onPublish lets other parts (history model) see accepted publications.
	onPublish func(st *StepRec, s int, m *wamp.Publish, pid func() wamp.ID)
	// checkDetails lets C12 add per-recipient detail checks; returns "" if fine.
	checkDetails func(pub int, rcv int, sub *mSub, m *wamp.Publish, ev *wamp.Event) string
	// configured history subscriptions exist without members
	persistent map[string]bool
	// metaAsserted: a meta part expects meta events exactly, so they are not ignored
	metaAsserted bool
}

func newBrokerPart(w *World) *brokerPart {
	return &brokerPart{subs: map[string]*mSub{}, byID: map[string]*mSub{}, touched: map[string]bool{}, persistent: map[string]bool{}}
}

func subKey(realm, class, topic string) string { return realm + "|" + class + "|" + topic }
func idKey(realm string, id wamp.ID) string    { return fmt.Sprintf("%s|%d", realm, id) }

func (b *brokerPart) Ignore(w *World, s int, m wamp.Message) bool {
	return !b.metaAsserted && isMetaEvent(m)
}

func (b *brokerPart) AfterStep(w *World, st *StepRec, exp Exp) *Violation { return nil }

func (b *brokerPart) OnEnded(w *World, st *StepRec, idx int, exp Exp) {
	realm := w.sess[idx].realm
	keys := make([]string, 0, len(b.subs))
	for k := range b.subs {
		keys = append(keys, k)
	}
	sort.Strings(keys)
	for _, k := range keys {
		s := b.subs[k]
		if s.realm != realm || !s.members[idx] {
			continue
		}
		delete(s.members, idx)
		b.touched[k] = true
		w.st.Label("nt05")
		w.st.Label("ended_with_subscription")
		if b.onUnsubscribe != nil {
			b.onUnsubscribe(st, idx, s, true)
		}
		if len(s.members) == 0 && !b.persistent[k] {
			delete(b.subs, k)
			delete(b.byID, idKey(realm, s.id))
			if b.onDelete != nil {
				b.onDelete(st, idx, s)
			}
		}
	}
}

func (b *brokerPart) OnSent(w *World, st *StepRec, sr sentRec, exp Exp) *Violation {
	ms := w.sess[sr.S]
	realm := ms.realm
	strict := w.realm(sr.S).Strict
	switch m := sr.Msg.(type) {
	case *wamp.Subscribe:
		match, _ := wamp.AsString(m.Options["match"])
		class := policyClass(match)
		valid, grey := modelValidURI(string(m.Topic), strict, match)
		if grey {
			exp.may(sr.S, "any reply (grey URI)", func(wamp.Message) bool { return true })
			return nil
		}
		req := m.Request
		if !valid {
			w.st.Label("subscribe_invalid_uri")
			exp.must(sr.S, fmt.Sprintf("ERROR{SUBSCRIBE req=%d wamp.error.invalid_uri}", req), func(x wamp.Message) bool {
				er, ok := x.(*wamp.Error)
				return ok && er.Type == wamp.SUBSCRIBE && er.Request == req && er.Error == wamp.ErrInvalidURI
			})
			return nil
		}
		key := subKey(realm, class, string(m.Topic))
		existing := b.subs[key]
		var got *wamp.Subscribed
		for _, r := range st.Recv[sr.S] {
			if sd, ok := r.(*wamp.Subscribed); ok && sd.Request == req {
				got = sd
			}
		}
		if got == nil {
			return w.fail(st, "session %d: SUBSCRIBE req=%d topic=%q match=%q got no SUBSCRIBED (received %s)", sr.S, req, m.Topic, match, recvString(st.Recv[sr.S]))
		}
		if existing != nil {
			if got.Subscription != existing.id {
				return w.fail(st, "session %d: SUBSCRIBE to live (%s,%q) answered with id %d, but the live subscription has id %d", sr.S, class, m.Topic, got.Subscription, existing.id)
			}
			if existing.members[sr.S] {
				w.st.Label("resubscribe_same_session")
			} else {
				existing.members[sr.S] = true
				if b.onSubscribe != nil {
					b.onSubscribe(st, sr.S, existing)
				}
			}
		} else {
			idk := idKey(realm, got.Subscription)
			if other := b.byID[idk]; other != nil {
				return w.fail(st, "session %d: new subscription (%s,%q) got id %d which is the id of live subscription (%s,%q)", sr.S, class, m.Topic, got.Subscription, other.class, other.topic)
			}
			ns := &mSub{id: got.Subscription, realm: realm, topic: string(m.Topic), class: class, members: map[int]bool{sr.S: true}, created: st.N}
			b.subs[key] = ns
			b.byID[idk] = ns
			if b.onCreate != nil && !b.persistent[key] {
				// (the subscription of a configured event history exists from the start:
				// its first subscriber joins it, nothing is created)
				b.onCreate(st, sr.S, ns)
			}
			if b.onSubscribe != nil {
				b.onSubscribe(st, sr.S, ns)
			}
		}
		exp.must(sr.S, "SUBSCRIBED", func(x wamp.Message) bool { return x == wamp.Message(got) })
	case *wamp.Unsubscribe:
		req := m.Request
		idk := idKey(realm, m.Subscription)
		sub := b.byID[idk]
		isErr := func(x wamp.Message) bool {
			er, ok := x.(*wamp.Error)
			return ok && er.Type == wamp.UNSUBSCRIBE && er.Request == req && er.Error == wamp.ErrNoSuchSubscription
		}
		isOK := func(x wamp.Message) bool {
			u, ok := x.(*wamp.Unsubscribed)
			return ok && u.Request == req
		}
		switch {
		case sub == nil:
			w.st.Label("unsubscribe_unknown")
			exp.must(sr.S, fmt.Sprintf("ERROR{UNSUBSCRIBE req=%d no_such_subscription}", req), isErr)
		case sub.members[sr.S]:
			delete(sub.members, sr.S)
			key := subKey(realm, sub.class, sub.topic)
			b.touched[key] = true
			if b.onUnsubscribe != nil {
				b.onUnsubscribe(st, sr.S, sub, false)
			}
			if len(sub.members) == 0 && !b.persistent[key] {
				delete(b.subs, key)
				delete(b.byID, idk)
				if b.onDelete != nil {
					b.onDelete(st, sr.S, sub)
				}
			}
			exp.must(sr.S, fmt.Sprintf("UNSUBSCRIBED{req=%d}", req), isOK)
		default:
			// live but not held by the sender: reply unspecified, no effect on holders.
			w.st.Label("unsubscribe_foreign")
			exp.must(sr.S, "UNSUBSCRIBED or ERROR no_such_subscription", func(x wamp.Message) bool { return isErr(x) || isOK(x) })
		}
	case *wamp.Publish:
		return b.expectPublish(w, st, sr.S, realm, strict, m, exp)
	}
	return nil
}

// modelFilterAllows implements the exclude/eligible rules of C01 over a
// session's id and string attributes.
func modelFilterAllows(opts wamp.Dict, sid wamp.ID, attrs map[string]string) bool {
	idIn := func(v any) (bool, bool) {
		l, ok := wamp.AsList(v)
		if !ok || len(l) == 0 {
			return false, false
		}
		for _, x := range l {
			if id, ok := wamp.AsID(x); ok && id == sid {
				return true, true
			}
		}
		return false, true
	}
	if v, ok := opts["exclude"]; ok {
		if in, _ := idIn(v); in {
			return false
		}
	}
	if v, ok := opts["eligible"]; ok {
		if in, given := idIn(v); given && !in {
			return false
		}
	}
	for k, v := range opts {
		var attr string
		var excl bool
		switch {
		case strings.HasPrefix(k, "exclude_") && k != "exclude_me":
			attr, excl = k[len("exclude_"):], true
		case strings.HasPrefix(k, "eligible_"):
			attr = k[len("eligible_"):]
		default:
			continue
		}
		l, ok := wamp.AsList(v)
		if !ok {
			continue
		}
		var vals []string
		for _, x := range l {
			if s, ok := wamp.AsString(x); ok && s != "" {
				vals = append(vals, s)
			}
		}
		if len(vals) == 0 {
			continue
		}
		have, has := attrs[attr]
		in := false
		for _, s := range vals {
			if has && s == have {
				in = true
			}
		}
		if excl && in {
			return false
		}
		if !excl && !in {
			return false
		}
	}
	return true
}

// matching returns the live subscriptions of a realm matching a topic, sorted.
func (b *brokerPart) matching(realm, topic string) []*mSub {
	keys := make([]string, 0, len(b.subs))
	for k := range b.subs {
		keys = append(keys, k)
	}
	sort.Strings(keys)
	var out []*mSub
	for _, k := range keys {
		s := b.subs[k]
		if s.realm == realm && modelMatches(topic, s.topic, s.class) {
			out = append(out, s)
		}
	}
	return out
}

func (b *brokerPart) expectPublish(w *World, st *StepRec, pubS int, realm string, strict bool, m *wamp.Publish, exp Exp) *Violation {
	ack, _ := m.Options["acknowledge"].(bool)
	req := m.Request
	valid, grey := modelValidURI(string(m.Topic), strict, "")
	if grey {
		exp.may(pubS, "any reply (grey URI)", func(wamp.Message) bool { return true })
		return nil
	}
	if !valid {
		w.st.Label("publish_invalid_uri")
		if ack {
			exp.must(pubS, fmt.Sprintf("ERROR{PUBLISH req=%d invalid_uri}", req), func(x wamp.Message) bool {
				er, ok := x.(*wamp.Error)
				return ok && er.Type == wamp.PUBLISH && er.Request == req && er.Error == wamp.ErrInvalidURI
			})
		}
		return nil
	}
	// C12 clause: a disallowed disclose_me request is refused and not delivered.
	if dm, _ := m.Options["disclose_me"].(bool); dm && !w.realm(pubS).AllowDisclose {
		isRefusal := func(x wamp.Message) bool {
			er, ok := x.(*wamp.Error)
			return ok && er.Type == wamp.PUBLISH && er.Request == req && er.Error == wamp.ErrOptionDisallowedDiscloseMe
		}
		refused := true
		if w.sess[pubS].trusted() {
			// trusted requester on a realm that forbids disclosure: refusal or
			// disclosure are both accepted; follow what the router did
			if !ack {
				// unobservable which way it went
				for i := range w.sess {
					exp.may(i, "EVENT (trusted disclose_me, unacknowledged)", func(x wamp.Message) bool { _, ok := x.(*wamp.Event); return ok })
					exp.may(i, "EVENT (trusted disclose_me, unacknowledged)", func(x wamp.Message) bool { _, ok := x.(*wamp.Event); return ok })
					exp.may(i, "EVENT (trusted disclose_me, unacknowledged)", func(x wamp.Message) bool { _, ok := x.(*wamp.Event); return ok })
				}
				w.st.Label("grey:trusted_disclose_me_unacked")
				return nil
			}
			refused = false
			for _, x := range st.Recv[pubS] {
				if isRefusal(x) {
					refused = true
				}
			}
			w.st.Label("grey:trusted_disclose_me")
		}
		if refused {
			w.st.Label("publish_disclose_refused")
			if ack {
				exp.must(pubS, fmt.Sprintf("ERROR{PUBLISH req=%d option_disallowed.disclose_me}", req), isRefusal)
			}
			return nil
		}
	}
	excludeMe := true
	if bb, ok := m.Options["exclude_me"].(bool); ok {
		excludeMe = bb
	}
	// One publication id for everybody: bind on first sight.
	var pid wamp.ID
	bind := func(id wamp.ID) bool {
		if pid == 0 {
			pid = id
			return true
		}
		return pid == id
	}
	classes := map[string]bool{}
	filtered := false
	afterChange := false
	nrecv := 0
	for _, sub := range b.matching(realm, string(m.Topic)) {
		k := subKey(realm, sub.class, sub.topic)
		if b.touched[k] {
			afterChange = true
		}
		members := make([]int, 0, len(sub.members))
		for idx := range sub.members {
			members = append(members, idx)
		}
		sort.Ints(members)
		for _, idx := range members {
			rs := w.sess[idx]
			if idx == pubS && excludeMe {
				continue
			}
			if !modelFilterAllows(m.Options, rs.sid, rs.attrs) {
				filtered = true
				continue
			}
			classes[sub.class] = true
			nrecv++
			sub := sub
			subID, class, topic := sub.id, sub.class, string(m.Topic)
			args, kw := m.Arguments, m.ArgumentsKw
			rcv := idx
			var detailErr string
			exp.must(idx, fmt.Sprintf("EVENT{sub=%d topic=%q}", subID, topic), func(x wamp.Message) bool {
				ev, ok := x.(*wamp.Event)
				if !ok || ev.Subscription != subID {
					return false
				}
				if class != "exact" {
					tp, _ := wamp.AsString(ev.Details["topic"])
					if tp != topic {
						return false
					}
				}
				if !PayloadEq(ev.Arguments, args) || !PayloadEq(ev.ArgumentsKw, kw) {
					return false
				}
				if b.checkDetails != nil {
					if msg := b.checkDetails(pubS, rcv, sub, m, ev); msg != "" {
						detailErr = msg
						return false
					}
				}
				return bind(ev.Publication)
			})
			_ = detailErr
		}
	}
	if ack {
		exp.must(pubS, fmt.Sprintf("PUBLISHED{req=%d}", req), func(x wamp.Message) bool {
			p, ok := x.(*wamp.Published)
			return ok && p.Request == req && bind(p.Publication)
		})
	}
	if b.onPublish != nil {
		b.onPublish(st, pubS, m, func() wamp.ID { return pid })
	}
	w.st.Label("publish")
	if nrecv > 0 {
		w.st.Label("publish_delivered")
	}
	if len(classes) >= 2 {
		w.st.Label("publish_multi_policy")
	}
	if filtered {
		w.st.Label("publish_filter_excluded")
	}
	if afterChange {
		w.st.Label("publish_after_membership_change")
	}
	if w.prop == "C01" && (len(classes) >= 2 || filtered || afterChange) {
		w.st.NonTrivial = true
	}
	for k := range m.Options {
		w.st.Label("opt:" + k)
	}
	return nil
}
