package harness

// Confirmation of a real-time hang outside the test clock.
//
// A goroutine that waits for a sync.Mutex is not "durably blocked" for
// testing/synctest. When a case hangs in real time and the goroutine dump shows
// a mutex waiter, two explanations are possible: (a) the mutex holder waits for
// the fake clock, which cannot advance while the waiter keeps the bubble busy -
// an artefact of the test clock, the real program would go on; or (b) the
// router really is deadlocked on that mutex. The dump cannot tell them apart.
// The case is therefore run once more on the real clock, outside any bubble:
// every operation is replayed (virtual time advances are shortened), then an
// uninvolved probe session must be served and Router.Close must return. If
// not, the hang is real.

import (
	"fmt"
	"time"
)

const realtimeAdvanceCap = 120 * time.Millisecond

func runCaseRealtime(c *Case) Verdict {
	done := make(chan Verdict, 1)
	go func() {
		defer func() {
			if r := recover(); r != nil {
				done <- Verdict{Kind: "inconclusive", Prop: c.Prop, Reason: fmt.Sprint("real-time confirmation panicked: ", r)}
			}
		}()
		if c.Engine == "actors" || c.Prop == "C08" {
			done <- execActors(c, false, true)
			return
		}
		e := NewEngine(c)
		e.Realtime = true
		if err := e.Start(); err != nil {
			done <- Verdict{Kind: "inconclusive", Prop: c.Prop, Reason: "router start failed: " + err.Error()}
			return
		}
		for _, s := range e.Sess {
			if s.Cfg.NoJoin {
				continue
			}
			st := e.newStep("join")
			e.startSession(s)
			e.queue(s, helloFor(&s.Cfg), -1)
			e.settle(st)
		}
		for i := 0; i < len(e.C.Ops); {
			st := e.newStep("op")
			op := &e.C.Ops[i]
			switch {
			case op.K == "advance":
				d := time.Duration(op.Ns)
				if d > realtimeAdvanceCap {
					d = realtimeAdvanceCap
				}
				time.Sleep(d)
				i++
			case op.K == "router_close" || op.K == "remove_realm" || op.K == "add_realm":
				// shutdown cases are confirmed through Close below
				if op.K != "router_close" {
					e.execOp(i, op, st)
				}
				i++
			case op.Par:
				for i < len(e.C.Ops) && e.C.Ops[i].Par && e.C.Ops[i].K != "advance" {
					if k := e.C.Ops[i].K; k != "router_close" {
						e.execOp(i, &e.C.Ops[i], st)
					}
					i++
				}
			default:
				e.execOp(i, op, st)
				i++
			}
			e.settle(st)
		}
		// Sessions that had stopped reading read again: a session handler held back by one
		// of them (legitimately, for up to a result-retry period per pending result) is
		// released at its next retry, whereas a deadlock on a mutex stays.
		for _, s := range e.Sess {
			if s.Stalled && s.lk != nil {
				s.Stalled = false
				s.lk.pause(false)
			}
		}
		removed := map[string]bool{}
		for _, op := range e.C.Ops {
			switch op.K {
			case "remove_realm":
				removed[op.URI] = true
			case "add_realm":
				delete(removed, op.URI)
			}
		}
		for i := range e.C.Realms {
			if removed[e.C.Realms[i].URI] {
				continue // the case removed that realm itself
			}
			if _, err := e.Probe(e.C.Realms[i].URI); err != nil && err != errProbeSkipped {
				done <- Verdict{Kind: "hang", Prop: c.Prop, Reason: "confirmed on the real clock, outside the test bubble: " + err.Error()}
				return
			}
		}
		closed := make(chan struct{})
		go func() { e.R.Close(); close(closed) }()
		select {
		case <-closed:
		case <-time.After(90 * time.Second):
			done <- Verdict{Kind: "hang", Prop: c.Prop, Reason: "confirmed on the real clock, outside the test bubble: Router.Close did not return within 90 s"}
			return
		}
		done <- Verdict{Kind: "ok", Prop: c.Prop}
	}()
	select {
	case v := <-done:
		return v
	case <-time.After(400 * time.Second):
		return Verdict{Kind: "inconclusive", Prop: c.Prop, Reason: "real-time confirmation did not finish"}
	}
}
