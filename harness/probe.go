package harness

import (
	"errors"
	"fmt"
	"sync"
	"time"

	"github.com/gammazero/nexus/v3/transport"
	"github.com/gammazero/nexus/v3/wamp"
)

// Probe attaches a fresh, well-behaved in-process session to the realm and
// performs a subscribe->publish->event round trip, a wamp.session.count call
// and a register->call->yield round trip with itself. It fails if any step is
// not answered, and reports how much virtual time passed (a healthy router
// answers everything at the same virtual instant).
func (e *Engine) Probe(realm string) (elapsed time.Duration, err error) {
	start := time.Now()
	// The other sessions keep reading while the probe runs (they are not the
	// subject here; an unresponsive client is C07's).
	quit := make(chan struct{})
	var pumps sync.WaitGroup
	for _, s := range e.Sess {
		if ll, ok := s.lk.(*localLink); ok && !ll.hasRewriter && !s.Stalled && !s.Dropped {
			pumps.Add(1)
			go ll.pump(quit, &pumps)
		}
	}
	defer func() {
		close(quit)
		pumps.Wait()
	}()
	c, r := transport.LinkedPeers()
	attachErr := make(chan error, 1)
	go func() { attachErr <- e.R.Attach(r) }()
	patience := 5 * time.Minute // virtual; only passes if nothing else can run
	if e.Realtime {
		patience = 80 * time.Second // longer than the result-retry period: a session handler (the meta session included) may legitimately be held back that long
	}
	send := func(m wamp.Message) error {
		t := time.NewTimer(patience)
		defer t.Stop()
		select {
		case c.Send() <- m:
			return nil
		case <-t.C:
			return fmt.Errorf("the router did not accept %s from the probe session", m.MessageType())
		}
	}
	recv := func(what string, ok func(wamp.Message) bool) (wamp.Message, error) {
		t := time.NewTimer(patience)
		defer t.Stop()
		for {
			select {
			case m, open := <-c.Recv():
				if !open {
					return nil, fmt.Errorf("probe session was closed by the router while waiting for %s", what)
				}
				if ok(m) {
					return m, nil
				}
				if ev, isEv := m.(*wamp.Event); isEv && ev != nil {
					continue // events of other subscriptions (none expected) are skipped
				}
				return nil, fmt.Errorf("probe session expected %s, received %s", what, MsgString(m))
			case <-t.C:
				return nil, fmt.Errorf("probe session got no %s (router not serving other sessions)", what)
			}
		}
	}
	defer func() {
		// leave politely; ignore the outcome
		t := time.NewTimer(patience)
		select {
		case c.Send() <- &wamp.Goodbye{Reason: wamp.CloseRealm, Details: wamp.Dict{}}:
			t2 := time.NewTimer(patience)
			select {
			case <-c.Recv():
			case <-t2.C:
			}
			t2.Stop()
		case <-t.C:
		}
		t.Stop()
		c.Close()
		elapsed = time.Since(start)
	}()
	roles := wamp.Dict{}
	for role := range allRoles {
		roles[role] = wamp.Dict{"features": wamp.Dict{}}
	}
	if err := send(&wamp.Hello{Realm: wamp.URI(realm), Details: wamp.Dict{"roles": roles}}); err != nil {
		return 0, err
	}
	if _, err := recv("WELCOME", func(m wamp.Message) bool { _, ok := m.(*wamp.Welcome); return ok }); err != nil {
		select {
		case aerr := <-attachErr:
			if aerr != nil {
				return 0, fmt.Errorf("%w (Attach: %v)", err, aerr)
			}
		default:
		}
		return 0, err
	}
	if err := send(&wamp.Subscribe{Request: 1, Options: wamp.Dict{}, Topic: "verif.probe.topic"}); err != nil {
		return 0, err
	}
	sm, err := recv("SUBSCRIBED", func(m wamp.Message) bool { s, ok := m.(*wamp.Subscribed); return ok && s.Request == 1 })
	if err != nil {
		return 0, err
	}
	subID := sm.(*wamp.Subscribed).Subscription
	if err := send(&wamp.Publish{Request: 2, Options: wamp.Dict{"acknowledge": true, "exclude_me": false}, Topic: "verif.probe.topic", Arguments: wamp.List{"ping"}}); err != nil {
		return 0, err
	}
	gotEv, gotPub := false, false
	for !gotEv || !gotPub {
		_, err := recv("EVENT and PUBLISHED", func(m wamp.Message) bool {
			switch x := m.(type) {
			case *wamp.Event:
				if x.Subscription == subID {
					gotEv = true
					return true
				}
			case *wamp.Published:
				if x.Request == 2 {
					gotPub = true
					return true
				}
			}
			return false
		})
		if err != nil {
			return 0, err
		}
	}
	if err := send(&wamp.Call{Request: 3, Options: wamp.Dict{}, Procedure: "wamp.session.count"}); err != nil {
		return 0, err
	}
	if _, err := recv("RESULT of wamp.session.count", func(m wamp.Message) bool { r, ok := m.(*wamp.Result); return ok && r.Request == 3 }); err != nil {
		return 0, err
	}
	if err := send(&wamp.Register{Request: 4, Options: wamp.Dict{}, Procedure: "verif.probe.proc"}); err != nil {
		return 0, err
	}
	if _, err := recv("REGISTERED", func(m wamp.Message) bool { r, ok := m.(*wamp.Registered); return ok && r.Request == 4 }); err != nil {
		return 0, err
	}
	if err := send(&wamp.Call{Request: 5, Options: wamp.Dict{}, Procedure: "verif.probe.proc", Arguments: wamp.List{7}}); err != nil {
		return 0, err
	}
	im, err := recv("INVOCATION", func(m wamp.Message) bool { _, ok := m.(*wamp.Invocation); return ok })
	if err != nil {
		return 0, err
	}
	if err := send(&wamp.Yield{Request: im.(*wamp.Invocation).Request, Options: wamp.Dict{}, Arguments: wamp.List{8}}); err != nil {
		return 0, err
	}
	if _, err := recv("RESULT", func(m wamp.Message) bool { r, ok := m.(*wamp.Result); return ok && r.Request == 5 }); err != nil {
		return 0, err
	}
	return time.Since(start), nil
}

var errProbeSkipped = errors.New("probe skipped")
