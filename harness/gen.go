package harness

import (
	"math"
	"strings"

	"pgregory.net/rapid"
)

// ---- values ----------------------------------------------------------------

var boundaryInts = []int64{0, 1, -1, 2, 127, 128, 255, 256, 65535, 65536, 1<<31 - 1, 1 << 31, -(1 << 31), 1<<32 - 1, 1 << 32,
	1<<53 - 1, 1 << 53, -(1<<53 - 1), -(1 << 53)}

var sampleStrings = []string{"", "a", "hello", "héllo wörld", "日本語", "a\x00b", "with \"quotes\" and \\", "line\nbreak", " ", strings.Repeat("x", 300), "😀"}

type valOpts struct {
	bin     bool // allow binary strings
	big     bool // allow integers beyond ±2^53 and uint64 > 2^63
	native  bool // allow Go-native types only in-process peers can send
	nonfin  bool // allow NaN / Inf
}

func genScalar(t *rapid.T, o valOpts) V {
	n := 8
	k := uni(t, n+1, "kind")
	switch k {
	case 0:
		return VNil()
	case 1:
		return VBool(rapid.Bool().Draw(t, "b"))
	case 2:
		return VI64(pick(t, boundaryInts, "bi"))
	case 3:
		return VI64(rapid.Int64Range(-(1 << 53), 1<<53).Draw(t, "i"))
	case 4:
		if o.big && rapid.Bool().Draw(t, "huge") {
			return VU64(pick(t, []uint64{1<<63 - 1, 1 << 63, math.MaxUint64, 1<<53 + 1}, "u"))
		}
		return VU64(rapid.Uint64Range(0, 1<<53).Draw(t, "u"))
	case 5:
		fs := []float64{0, 0.5, -0.5, 1.5, 3, -7, 1e-300, 1e300, 1.0 / 3, 123456.789, 9007199254740992}
		if o.nonfin {
			fs = append(fs, math.Inf(1), math.Inf(-1), math.NaN())
		}
		return VF64(pick(t, fs, "f"))
	case 6:
		return VStr(pick(t, sampleStrings, "ss"))
	case 7:
		return VStr(rapid.StringN(0, 12, 40).Draw(t, "s"))
	default:
		if o.bin {
			return VBin(rapid.SliceOfN(rapid.Byte(), 0, 16).Draw(t, "bin"))
		}
		if o.native {
			switch uni(t, 4, "nk") {
			case 0:
				return VInt(rapid.IntRange(-1000, 1000).Draw(t, "int"))
			case 1:
				return VID(rapid.Uint64Range(0, 1<<53).Draw(t, "id"))
			case 2:
				return VStrs(rapid.SliceOfN(rapid.SampledFrom([]string{"a", "b", ""}), 0, 3).Draw(t, "strs")...)
			}
		}
		return VStr("fallback")
	}
}

func genValue(t *rapid.T, depth int, o valOpts) V {
	if depth <= 0 || uni(t, 10, "container") < 6 {
		return genScalar(t, o)
	}
	if rapid.Bool().Draw(t, "isList") {
		n := uni(t, 4, "n")
		items := make([]V, n)
		for i := range items {
			items[i] = genValue(t, depth-1, o)
		}
		return VList(items...)
	}
	return V{T: "dict", K: genKVs(t, depth-1, o, 3)}
}

var dictKeys = []string{"k", "key2", "", "ünï", "a.b", "x y", "k"}

func genKVs(t *rapid.T, depth int, o valOpts, max int) []KV {
	n := uni(t, max+1, "nkv")
	var out []KV
	seen := map[string]bool{}
	for i := 0; i < n; i++ {
		k := pick(t, dictKeys, "key")
		if seen[k] {
			continue
		}
		seen[k] = true
		out = append(out, KV{K: k, V: genValue(t, depth, o)})
	}
	return out
}

func genArgs(t *rapid.T, o valOpts) []V {
	n := uni(t, 4, "nargs")
	if n == 0 {
		return nil
	}
	out := make([]V, n)
	for i := range out {
		out[i] = genValue(t, 2, o)
	}
	return out
}

func genKw(t *rapid.T, o valOpts) []KV {
	if uni(t, 3, "haskw") == 0 {
		return nil
	}
	return genKVs(t, 2, o, 3)
}

// ---- URIs ----------------------------------------------------------------

var uriAlphabet = []string{"a", "b"}

// genTopic draws a valid exact URI with 1..4 components over a tiny alphabet
// so that exact/prefix/wildcard tables overlap constantly.
func genTopic(t *rapid.T) string {
	n := 1 + uni(t, 3, "ncomp")
	c := make([]string, n)
	for i := range c {
		c[i] = pick(t, uriAlphabet, "comp")
	}
	return strings.Join(c, ".")
}

// genPattern derives a pattern of the given policy from a topic.
func genPattern(t *rapid.T, match string) string {
	topic := genTopic(t)
	comps := strings.Split(topic, ".")
	switch match {
	case "prefix":
		switch uni(t, 5, "pfxkind") {
		case 0:
			return "" // catch-all
		case 1: // cut after a dot: "a.b."
			k := rapid.IntRange(1, len(comps)).Draw(t, "cut")
			return strings.Join(comps[:k], ".") + "."
		case 2: // cut inside: whole components
			k := rapid.IntRange(1, len(comps)).Draw(t, "cut")
			return strings.Join(comps[:k], ".")
		default:
			return topic
		}
	case "wildcard":
		for i := range comps {
			if uni(t, 3, "blank") == 0 {
				comps[i] = ""
			}
		}
		return strings.Join(comps, ".")
	}
	return topic
}

// genInvalidURI constructs a URI that is invalid for (strict, match).
func genInvalidURI(t *rapid.T, strict bool, match string) string {
	base := genTopic(t)
	kinds := []string{"space", "hash", "tab"}
	if match != "wildcard" {
		kinds = append(kinds, "emptymid", "leadingdot")
	}
	if match != "wildcard" && match != "prefix" {
		kinds = append(kinds, "trailingdot", "empty")
	}
	if strict {
		kinds = append(kinds, "upper", "dash", "unicode")
	}
	switch pick(t, kinds, "badkind") {
	case "space":
		return base + " x"
	case "hash":
		return "a#" + base
	case "tab":
		return base + ".\tq"
	case "emptymid":
		return "a.." + base
	case "leadingdot":
		return "." + base
	case "trailingdot":
		return base + "."
	case "empty":
		return ""
	case "upper":
		return base + ".A"
	case "dash":
		return "a-b." + base
	case "unicode":
		return base + ".é"
	}
	return "a b"
}

func genMatch(t *rapid.T) string {
	return pick(t, []string{"", "", "exact", "prefix", "prefix", "wildcard", "wildcard"}, "match")
}

// ---- sessions ----------------------------------------------------------------

var allTransports = []string{"local", "rs-json", "rs-msgpack", "rs-cbor", "ws-json", "ws-msgpack", "ws-cbor"}
var remoteTransports = allTransports[1:]

var allRoles = map[string][]string{
	"publisher":  {"publisher_exclusion", "publisher_identification", "subscriber_blackwhite_listing", "payload_passthru_mode"},
	"subscriber": {"pattern_based_subscription", "publisher_identification", "payload_passthru_mode"},
	"caller":     {"call_canceling", "call_timeout", "caller_identification", "progressive_call_results", "progressive_call_invocations", "payload_passthru_mode"},
	"callee":     {"call_canceling", "call_timeout", "caller_identification", "pattern_based_registration", "progressive_call_results", "progressive_call_invocations", "shared_registration", "payload_passthru_mode"},
}

func fullRoles() map[string][]string {
	out := map[string][]string{}
	for r, f := range allRoles {
		out[r] = append([]string(nil), f...)
	}
	return out
}

// genRoles draws a random feature subset for all four roles.
func genRoles(t *rapid.T) map[string][]string {
	out := map[string][]string{}
	for _, r := range []string{"callee", "caller", "publisher", "subscriber"} {
		var fs []string
		for _, f := range allRoles[r] {
			if uni(t, 4, "feat") > 0 {
				fs = append(fs, f)
			} else if uni(t, 3, "featfalse") == 0 {
				// listed, with the value false: not announced ("!" marks it in the case data)
				fs = append(fs, "!"+f)
			}
		}
		out[r] = fs
	}
	return out
}

func hasFeature(cfg *SessCfg, role, feat string) bool {
	for _, f := range cfg.Roles[role] {
		if f == feat {
			return true
		}
	}
	return false
}

// ---- unbiased choice helpers ---------------------------------------------------
// rapid's integer generators (and SampledFrom) are deliberately biased towards
// small values, which is right for sizes but wrong for weighted choices between
// alternatives. rapid.Bool is an unbiased bit, so choices are built from bits.
// They still shrink towards 0 (the first alternative).

func uni(t *rapid.T, n int, label string) int {
	if n <= 1 {
		return 0
	}
	bits := 3
	for (1 << bits) < n*8 {
		bits++
	}
	v := 0
	for i := 0; i < bits; i++ {
		if rapid.Bool().Draw(t, label) {
			v |= 1 << i
		}
	}
	return v % n
}

func pct(t *rapid.T, p int, label string) bool { return uni(t, 100, label) < p }

func pick[T any](t *rapid.T, xs []T, label string) T { return xs[uni(t, len(xs), label)] }


// minHistory draws a lower bound for the length of a generated history. rapid's
// slice generator is biased towards short slices (right for shrinking, wrong for
// histories that need several events on one object); a uniformly drawn lower
// bound keeps removal-shrinking available (the bound itself shrinks to 1 first).
func minHistory(t *rapid.T, max int) int {
	return 1 + uni(t, max*2/3, "minhistory")
}
