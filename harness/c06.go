package harness

// C06 — Router.Close and RemoveRealm are safe at any moment.

import (
	"fmt"
	"runtime"
	"strings"
	"time"

	"github.com/gammazero/nexus/v3/router"
	"github.com/gammazero/nexus/v3/wamp"
	"pgregory.net/rapid"
)

func init() {
	register(&Property{
		ID: "C06",
		Rule: "rapid-generated prefix histories (0-20 ops) that leave things in flight - calls with and without router-handled timers, kill-mode cancels, receivers with tiny queues, a client that stopped reading with its queue full, half-done handshakes (transport open without HELLO, pending ticket challenge), one or two realms, optional realm template - " +
			"followed by a concurrent (par) batch of Router.Close or RemoveRealm together with 0-4 further operations (publish, call, yield, join, meta kill, drop), then late attach attempts, then 24 virtual hours; GOMAXPROCS varied, each par case executed 3 times. " +
			"Oracle: Close/RemoveRealm returned; the worker process is alive then and after every timer has fired; every session attached to a closed realm read GOODBYE wamp.close.system_shutdown or found its transport closed; late attaches were not welcomed; " +
			"a probe session on a realm that was not removed is served; removed realms are gone from the H1 snapshot; the bubble ends with no goroutine left. Non-trivial = a shutdown with a call timer armed, a handshake in flight, or a concurrent operation; distinct = case hash",
		Gen:             genC06,
		NewOracle:       func(c *Case) Oracle { return &c06Oracle{c: c, state: map[int]*c06Sess{}} },
		LivenessClaimed: true,
		ParRuns:         3,
		Assumptions: []string{
			"schedules are sampled by the Go scheduler (GOMAXPROCS 1/2/4/16) and steered only through virtual time; a race narrower than the scheduler's granularity can be missed",
			"attach during realm.close while a handler sleeps on the fake clock is avoided by the generator (synctest artefact, DESIGN 3.3)",
		},
	})
}

type c06Sess struct {
	joined    bool
	ended     bool
	gotShutdownGoodbye bool
	realm     string
	lateJoin  bool // HELLO sent after the realm/router was shut down
	droppedByUs bool // the harness closed the transport itself
	closedSeen  bool // the router closed the transport
}

type c06Oracle struct {
	baseOracle
	c         *Case
	state     map[int]*c06Sess
	closed    bool            // router_close issued
	removed   map[string]bool // realms removed
	timerArmed, handshakeInFlight, concurrent bool
}

func (o *c06Oracle) sess(i int, e *Engine) *c06Sess {
	s := o.state[i]
	if s == nil {
		s = &c06Sess{realm: e.C.Sess[i].Realm}
		o.state[i] = s
	}
	return s
}

func (o *c06Oracle) OnStep(e *Engine, st *StepRec) *Violation {
	if o.removed == nil {
		o.removed = map[string]bool{}
	}
	shutdownThisStep := false
	for _, oi := range st.OpIdx {
		op := &e.C.Ops[oi]
		switch op.K {
		case "router_close":
			o.closed = true
			shutdownThisStep = true
		case "remove_realm":
			o.removed[op.URI] = true
			shutdownThisStep = true
		case "add_realm":
			delete(o.removed, op.URI)
		case "drop":
			o.sess(op.S, e).ended = true
			o.sess(op.S, e).droppedByUs = true
		}
	}
	if shutdownThisStep && len(st.OpIdx) > 1 {
		o.concurrent = true
	}
	for _, sr := range st.Sent {
		s := o.sess(sr.S, e)
		switch m := sr.Msg.(type) {
		case *wamp.Hello:
			// with a realm template a removed realm is legitimately re-created by the next HELLO naming it
			if (o.closed || (o.removed[string(m.Realm)] && e.C.Template == nil)) && !shutdownThisStep {
				s.lateJoin = true
			}
			if o.removed[string(m.Realm)] && e.C.Template != nil && !o.closed {
				delete(o.removed, string(m.Realm))
				o.st.Label("realm_recreated_from_template")
			}
		case *wamp.Call:
			if t, _ := wamp.AsInt64(m.Options["timeout"]); t > 0 {
				o.timerArmed = true
			}
		}
	}
	for i, ms := range st.Recv {
		s := o.sess(i, e)
		for _, m := range ms {
			switch x := m.(type) {
			case *wamp.Welcome:
				s.joined = true
				if s.lateJoin {
					return &Violation{Prop: "C06", Step: st.N, Reason: fmt.Sprintf("session %d attached after its realm/router was shut down and was sent WELCOME", i)}
				}
			case *wamp.Goodbye:
				if x.Reason == wamp.ErrSystemShutdown {
					s.gotShutdownGoodbye = true
				}
				s.ended = true
			case *wamp.Abort:
				s.ended = true
			case *wamp.Challenge:
				if !s.joined {
					o.handshakeInFlight = true
				}
			}
		}
	}
	for _, i := range st.Closed {
		o.sess(i, e).ended = true
		o.sess(i, e).closedSeen = true
	}
	if st.Phase == "settle" {
		// every timer has fired; Close / RemoveRealm must have returned
		if e.CloseDone != nil {
			select {
			case <-e.CloseDone:
			default:
				return &Violation{Prop: "C06", Step: st.N, Reason: "Router.Close() has not returned 24 virtual hours after it was called\n" + bubbleStacks()}
			}
		}
		for _, d := range e.RemoveDone {
			select {
			case <-d:
			default:
				return &Violation{Prop: "C06", Step: st.N, Reason: "RemoveRealm() has not returned 24 virtual hours after it was called\n" + bubbleStacks()}
			}
		}
		for i, s := range o.state {
			if !s.joined {
				continue
			}
			down := o.closed || o.removed[s.realm]
			if down && !s.ended && !s.gotShutdownGoodbye {
				return &Violation{Prop: "C06", Step: st.N, Reason: fmt.Sprintf("session %d was attached to realm %s when it was shut down but neither read GOODBYE wamp.close.system_shutdown nor found its transport closed", i, s.realm)}
			}
			// also a session that was ending on its own account at that moment (its GOODBYE
			// or a protocol violation in flight): told about the shutdown or not, its
			// transport must not stay open
			if down && !s.droppedByUs && !s.gotShutdownGoodbye && !s.closedSeen && e.Sess[i].lk != nil && !e.Sess[i].Stalled {
				return &Violation{Prop: "C06", Step: st.N, Reason: fmt.Sprintf("session %d of realm %s ended on its own account while the realm was shut down; 24 virtual hours later its transport is still open and it was not told wamp.close.system_shutdown", i, s.realm)}
			}
		}
		if !o.closed {
			// realms that were not removed keep serving
			for _, rc := range e.C.Realms {
				if o.removed[rc.URI] {
					continue
				}
				if el, err := e.Probe(rc.URI); err != nil {
					return &Violation{Prop: "C06", Step: st.N, Reason: fmt.Sprintf("realm %s was not removed but does not serve a new session any more: %v", rc.URI, err)}
				} else if el > time.Second {
					return &Violation{Prop: "C06", Step: st.N, Reason: fmt.Sprintf("realm %s was not removed but served a new session only after %v", rc.URI, el)}
				}
				o.st.Label("surviving_realm_probed")
			}
			snap := router.VerifSnapshot(e.R)
			for r := range o.removed {
				if _, ok := snap[wamp.URI(r)]; ok {
					return &Violation{Prop: "C06", Step: st.N, Reason: fmt.Sprintf("removed realm %s is still present in the router", r)}
				}
			}
		}
		if o.closed {
			o.st.Label("router_closed_mid_history")
		}
		if len(o.removed) > 0 {
			o.st.Label("realm_removed_mid_history")
		}
		o.st.NonTrivial = (o.closed || len(o.removed) > 0) && (o.timerArmed || o.handshakeInFlight || o.concurrent)
		if o.timerArmed {
			o.st.Label("timer_armed")
		}
		if o.handshakeInFlight {
			o.st.Label("handshake_in_flight")
		}
		if o.concurrent {
			o.st.Label("concurrent_batch")
		}
	}
	return nil
}

func (o *c06Oracle) OnClosed(e *Engine) *Violation {
	if e.CloseDone != nil {
		select {
		case <-e.CloseDone:
		default:
			return &Violation{Prop: "C06", Reason: "Router.Close() did not return"}
		}
	}
	return nil
}

func genC06(t *rapid.T) *Case {
	two := pct(t, 55, "tworealms")
	mk := func(uri string) RealmCfg {
		return RealmCfg{URI: uri, Anonymous: true, Auths: []string{"ticket", "static"}, Users: c09Users, MetaKill: true, RequireLocalAuth: pct(t, 30, "rla:"+uri)}
	}
	c := &Case{Realms: []RealmCfg{mk("r1")}}
	if two {
		c.Realms = append(c.Realms, mk("r2"))
	}
	if pct(t, 25, "template") {
		tc := mk("template")
		c.Template = &tc
	}
	c.GMP = pick(t, []int{0, 1, 2, 4, 16}, "gmp")
	n := 2 + uni(t, 4, "nsess")
	for i := 0; i < n; i++ {
		realm := "r1"
		if two && pct(t, 40, "inr2") {
			realm = "r2"
		}
		s := SessCfg{Realm: realm, Roles: fullRoles()}
		if pct(t, 40, "remote") {
			s.Transport = pick(t, remoteTransports, "tr")
		}
		rla := false
		for _, rc := range c.Realms {
			if rc.URI == realm {
				rla = rc.RequireLocalAuth
			}
		}
		if s.Transport != "" || rla {
			if pct(t, 25, "pendingchallenge") {
				// half-done handshake: the router waits for AUTHENTICATE that never comes
				s.AuthMeth = []string{"ticket"}
				s.Hello = []KV{{"authid", VStr("alice")}}
			} else if rla || pct(t, 50, "static") {
				s.AuthMeth = []string{"static"}
				s.Hello = []KV{{"authid", VStr(pick(t, []string{"alice", "bob"}, "authid"))}}
			}
		}
		if pct(t, 15, "tinyq") {
			s.QSize = 1 + uni(t, 2, "q")
		}
		if pct(t, 20, "latejoiner") {
			s.NoJoin = true
		}
		c.Sess = append(c.Sess, s)
	}
	var callers, callees []int
	for i := 0; i < n; i++ {
		if i%2 == 0 {
			callers = append(callers, i)
		} else {
			callees = append(callees, i)
		}
	}
	g := &mixGen{rpc: newRPCGen(n, false, "C13", callers, callees), nsess: n, profile: "C05", alive: make([]bool, n), ps: &psGen{nsess: n}}
	prefix := rapid.SliceOfN(rapid.Custom(func(t *rapid.T) Op {
		op := g.op(t)
		if op.K == "advance" && op.Ns > 10e6 {
			op.Ns = 10e6 // keep timers armed
		}
		if op.K == "meta" && op.URI == "wamp.session.kill_all" {
			op.URI = "wamp.session.count"
		}
		return op
	}), 0, 20).Draw(t, "prefix")
	c.Ops = append(c.Ops, prefix...)
	// a call with a timer that is certainly pending
	if pct(t, 60, "armedcall") && len(callees) > 0 {
		c.Ops = append(c.Ops, Op{K: "register", S: callees[0], URI: "verif.slow"}, Op{K: "call", S: callers[0], URI: "verif.slow", Opts: []KV{{"timeout", VI64(pick(t, []int64{1, 50, 1000, 3600000}, "to"))}}})
	}
	if pct(t, 30, "halfopen") {
		for i := range c.Sess {
			if c.Sess[i].NoJoin {
				c.Ops = append(c.Ops, Op{K: "attach", S: i})
				break
			}
		}
	}
	// a client that has stopped reading, its outbound queue full, when the shutdown comes
	if pct(t, 35, "silentclient") && n >= 2 {
		v := uni(t, n, "silent")
		p := (v + 1 + uni(t, n-1, "filler")) % n
		if !c.Sess[v].NoJoin && !c.Sess[p].NoJoin && c.Sess[v].Realm == c.Sess[p].Realm && len(c.Sess[v].AuthMeth) == len(c.Sess[p].AuthMeth) {
			if c.Sess[v].QSize == 0 {
				c.Sess[v].QSize = 1 + uni(t, 3, "sq")
			}
			c.Ops = append(c.Ops, Op{K: "subscribe", S: v, URI: "verif.fill"}, Op{K: "stall", S: v})
			for i := 0; i < c.Sess[v].QSize+5; i++ {
				c.Ops = append(c.Ops, Op{K: "publish", S: p, URI: "verif.fill", Args: []V{VInt(i)}})
			}
		}
	}
	// the batch
	var batch []Op
	if !two || pct(t, 55, "closewhole") {
		batch = append(batch, Op{K: "router_close"})
	} else {
		batch = append(batch, Op{K: "remove_realm", URI: pick(t, []string{"r1", "r2"}, "which")})
	}
	// sessions that have not joined yet do so while the shutdown is under way
	for i := range c.Sess {
		if c.Sess[i].NoJoin && pct(t, 60, "joinduring") {
			batch = append(batch, Op{K: "join", S: i})
		}
	}
	nb := uni(t, 5, "nbatch")
	for i := 0; i < nb; i++ {
		s := uni(t, n, "bs")
		switch uni(t, 11, "bk") {
		case 8, 9:
			// a session that ends on its own account at that very moment
			batch = append(batch, Op{K: "goodbye", S: s})
		case 10:
			// ... or is being ended for a protocol violation (a client must not send WELCOME)
			batch = append(batch, Op{K: "raw", S: s, Msg: &RawMsg{Type: 2, Fields: []V{VID(5), VDict()}}})
		case 0:
			batch = append(batch, Op{K: "publish", S: s, URI: g.ps.topicFor(t), Opts: []KV{{"acknowledge", VBool(true)}}})
		case 1:
			batch = append(batch, Op{K: "call", S: s, URI: "verif.slow", Opts: []KV{{"timeout", VI64(pick(t, []int64{1, 50}, "bto"))}}})
		case 2:
			batch = append(batch, Op{K: "yield", S: s, Ref: "inv:-1:0"})
		case 3:
			batch = append(batch, Op{K: "join", S: s})
		case 4:
			batch = append(batch, Op{K: "meta", S: s, URI: "wamp.session.kill", Args: []V{VRef(fmt.Sprintf("sid:%d", uni(t, n, "kt")))}})
		case 5:
			batch = append(batch, Op{K: "drop", S: s})
		case 6:
			batch = append(batch, Op{K: "cancel", S: s, Ref: "call:-1:0", Mode: "kill"})
		default:
			batch = append(batch, Op{K: "meta", S: s, URI: "wamp.session.count"})
		}
	}
	perm := rapid.Permutation(batch).Draw(t, "order")
	for i := range perm {
		perm[i].Par = len(perm) > 1
	}
	c.Ops = append(c.Ops, perm...)
	// afterwards: time passes in pieces, late attaches
	c.Ops = append(c.Ops, Op{K: "advance", Ns: pick(t, []int64{0, 1, 1e6, 49e6, 50e6, 1e9, 6e9}, "after")})
	for i := range c.Sess {
		if c.Sess[i].NoJoin && pct(t, 60, "late") {
			c.Ops = append(c.Ops, Op{K: "join", S: i})
		}
	}
	if pct(t, 30, "secondclose") {
		c.Ops = append(c.Ops, Op{K: "router_close"})
	}
	return c
}


// bubbleStacks returns the router goroutines of the current bubble (for diagnostics).
func bubbleStacks() string {
	buf := make([]byte, 1<<20)
	buf = buf[:runtime.Stack(buf, true)]
	var out []string
	for _, g := range strings.Split(string(buf), "\n\n") {
		first, _, _ := strings.Cut(g, "\n")
		if !strings.Contains(first, "synctest bubble") || !strings.Contains(g, "nexus/v3") {
			continue
		}
		var fr []string
		for _, l := range strings.Split(g, "\n")[1:] {
			if !strings.HasPrefix(l, "\t") && !strings.HasPrefix(l, "created by") && !strings.HasPrefix(l, "runtime.") {
				if i := strings.LastIndex(l, "("); i > 0 {
					l = l[:i]
				}
				fr = append(fr, strings.TrimPrefix(l, "github.com/gammazero/nexus/v3/"))
			}
		}
		if len(fr) > 6 {
			fr = fr[:6]
		}
		out = append(out, first[strings.Index(first, "["):]+" "+strings.Join(fr, " <- "))
	}
	if len(out) > 14 {
		out = out[:14]
	}
	return strings.Join(out, "\n")
}
