package harness

// Independent reference for the WAMP URI rules quoted in C19 (and used by the
// broker/dealer models). Written from the property statement, component-wise,
// without regular expressions.

import "strings"

// looseBadByte: a loose component may not contain white space, '.' or '#'.
// '.' cannot occur inside a component after splitting. White space is judged on
// the ASCII set here; other Unicode white space is a documented grey zone and
// is reported by modelValidURI's third result.
func looseCompOK(c string) (ok bool, grey bool) {
	for _, r := range c {
		switch r {
		case ' ', '\t', '\n', '\r', '\f', '#':
			return false, false
		case '\v', 0x85, 0xA0, 0x1680, 0x2028, 0x2029, 0x202f, 0x205f, 0x3000:
			grey = true
		default:
			if r >= 0x2000 && r <= 0x200a {
				grey = true
			}
		}
	}
	return true, grey
}

func strictCompOK(c string) bool {
	for i := 0; i < len(c); i++ {
		b := c[i]
		if !(b >= '0' && b <= '9' || b >= 'a' && b <= 'z' || b == '_') {
			return false
		}
	}
	return true
}

// modelValidURI: match ∈ "", "exact", "prefix", "wildcard" (anything else is
// treated as exact, as the statement's "exact use").
func modelValidURI(u string, strict bool, match string) (valid bool, grey bool) {
	comps := strings.Split(u, ".")
	for i, c := range comps {
		if c == "" {
			switch match {
			case "wildcard":
				continue
			case "prefix":
				if i == len(comps)-1 {
					continue
				}
			}
			return false, false
		}
		if strict {
			if !strictCompOK(c) {
				return false, false
			}
		} else {
			ok, g := looseCompOK(c)
			if !ok {
				return false, false
			}
			grey = grey || g
		}
	}
	return true, grey
}

func modelPrefixMatch(topic, prefix string) bool {
	return len(topic) >= len(prefix) && topic[:len(prefix)] == prefix
}

func modelWildcardMatch(topic, pattern string) bool {
	tc := strings.Split(topic, ".")
	pc := strings.Split(pattern, ".")
	if len(tc) != len(pc) {
		return false
	}
	for i := range pc {
		if pc[i] != "" && pc[i] != tc[i] {
			return false
		}
	}
	return true
}

func policyClass(match string) string {
	switch match {
	case "prefix", "wildcard":
		return match
	}
	return "exact"
}

func modelMatches(topic, pattern, class string) bool {
	switch class {
	case "prefix":
		return modelPrefixMatch(topic, pattern)
	case "wildcard":
		return modelWildcardMatch(topic, pattern)
	}
	return topic == pattern
}
