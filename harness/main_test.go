package harness

import (
	"encoding/json"
	"fmt"
	"os"
	"strconv"
	"strings"
	"syscall"
	"testing"

	"pgregory.net/rapid"
)

var sigquit = syscall.SIGQUIT

// TestWorker is the worker process entry point (see worker.go).
func TestWorker(t *testing.T) {
	if os.Getenv("VERIF_WORKER") != "1" {
		t.Skip("worker entry point")
	}
	WorkerMain(t)
}

// shardStats is what a shard reports to the driver.
type shardStats struct {
	Prop        string          `json:"property"`
	Evaluations int             `json:"evaluations"`
	Executions  int             `json:"executions"`
	NonTrivial  []string        `json:"nontrivial_hashes"`
	Labels      map[string]int  `json:"labels"`
	Verdicts    map[string]int  `json:"verdicts"`
	Samples     []*Case         `json:"samples"`
	Failing     *failRec        `json:"failing,omitempty"`
	Inconcl     []*failRec      `json:"inconclusive,omitempty"`
	Completed   bool            `json:"completed"`
}

type failRec struct {
	Case    *Case   `json:"case"`
	Verdict Verdict `json:"verdict"`
}

// evalCase runs one case (possibly several times for schedule-dependent ones)
// and returns the worst verdict.
type evaluator struct {
	p     *Property
	w     *workerHandle
	stats *shardStats
	seen  map[string]bool
}

func (ev *evaluator) worker() (*workerHandle, error) {
	if ev.w == nil || ev.w.cmd == nil {
		w, err := startWorker()
		if err != nil {
			return nil, err
		}
		ev.w = w
	}
	return ev.w, nil
}

func isToolingCrash(v Verdict) bool {
	return v.Kind == "crash" && (strings.Contains(v.Reason, "multiple synctest bubbles") || strings.Contains(v.Stderr, "multiple synctest bubbles"))
}

func hasPar(c *Case) bool {
	for i := range c.Ops {
		if c.Ops[i].Par {
			return true
		}
	}
	return false
}

func (ev *evaluator) eval(c *Case, trace bool) Verdict {
	runs := 1
	if hasPar(c) && ev.p.ParRuns > 1 {
		runs = ev.p.ParRuns
	}
	var last Verdict
	for i := 0; i < runs; i++ {
		var v Verdict
		if ev.p.Pure != nil {
			v = ev.p.Pure(c)
		} else {
			w, err := ev.worker()
			if err != nil {
				return Verdict{Kind: "inconclusive", Reason: "cannot start worker: " + err.Error()}
			}
			v, _ = w.run(c, trace)
			// A real-time hang (or a synctest runtime artefact) that does not
			// repeat on a fresh worker is a scheduling/tooling glitch, not a
			// property of the case: retry before believing it.
			for attempt := 0; attempt < 2 && (v.Kind == "hang" || isToolingCrash(v)); attempt++ {
				if ev.stats != nil {
					ev.stats.Labels["retried:"+v.Kind]++
				}
				w, err = ev.worker()
				if err != nil {
					break
				}
				v, _ = w.run(c, trace)
			}
		}
		if (v.Kind == "inconclusive" || v.Kind == "artefact") && strings.Contains(v.Reason, "real-time watchdog") && ev.p.LivenessClaimed && (c.Prop == "C04" || c.Prop == "C06" || c.Prop == "C07" || c.Prop == "C08") {
			// a mutex waiter in the dump: test-clock artefact or real deadlock? Decide on the real clock.
			cv := confirmRealtime(c)
			if ev.stats != nil {
				ev.stats.Labels["realtime_confirmation:"+cv.Kind]++
			}
			switch cv.Kind {
			case "hang":
				cv.Stderr = v.Stderr
				v = cv
			case "ok":
				v.Kind = "artefact"
			}
		}
		if ev.stats != nil {
			ev.stats.Executions++
		}
		last = v
		if v.Kind != "ok" {
			return v
		}
	}
	return last
}

// isViolation maps a verdict to "this property is violated" / "inconclusive".
func isViolation(p *Property, v Verdict) (viol bool, inconclusive bool) {
	switch v.Kind {
	case "ok":
		return false, false
	case "violation", "crash":
		return true, false
	case "artefact":
		// fake-clock artefact (see worker.go): neither a violation nor a reason to distrust the run
		return false, false
	case "deadlock", "leak", "hang":
		if p.LivenessClaimed {
			return true, false
		}
		return false, true
	}
	return false, true
}

func TestShard(t *testing.T) {
	prop := os.Getenv("VERIF_PROP")
	if prop == "" {
		t.Skip("shard entry point")
	}
	p := registry[prop]
	if p == nil {
		t.Fatalf("unknown property %s", prop)
	}
	statsPath := os.Getenv("VERIF_STATS")
	nSamples := 3
	st := &shardStats{Prop: prop, Labels: map[string]int{}, Verdicts: map[string]int{}}
	ev := &evaluator{p: p, stats: st, seen: map[string]bool{}}
	defer func() {
		if ev.w != nil {
			ev.w.kill()
		}
		if statsPath != "" {
			b, _ := json.Marshal(st)
			_ = os.WriteFile(statsPath, b, 0o644)
		}
	}()
	record := func(c *Case, v Verdict) {
		st.Evaluations++
		st.Verdicts[v.Kind]++
		for l, n := range v.Stats.Labels {
			st.Labels[l] += n
		}
		if v.Stats.NonTrivial {
			h := c.Hash()
			if !ev.seen[h] {
				ev.seen[h] = true
				st.NonTrivial = append(st.NonTrivial, h)
				if len(st.Samples) < nSamples {
					st.Samples = append(st.Samples, c)
				}
			}
		}
	}
	// Static (pinned) cases of the property run first, in shard 0 only.
	if p.Pinned != nil && os.Getenv("VERIF_SHARD_INDEX") == "0" {
		for _, c := range p.Pinned() {
			c.Prop = prop
			v := ev.eval(c, false)
			record(c, v)
			st.Labels["pinned_static_cases"]++
			if viol, _ := isViolation(p, v); viol {
				st.Failing = &failRec{Case: c, Verdict: v}
				t.Fatalf("%s %s on pinned case: %s", prop, v.Kind, v.Reason)
			}
		}
	}
	excluded := map[string]int{}
	genExcluded = func(what string) { excluded[what]++ }
	rapid.Check(t, func(rt *rapid.T) {
		c := p.Gen(rt)
		c.Prop = prop
		v := ev.eval(c, false)
		record(c, v)
		viol, inc := isViolation(p, v)
		if inc {
			if len(st.Inconcl) < 5 {
				st.Inconcl = append(st.Inconcl, &failRec{Case: c, Verdict: v})
			}
			return
		}
		if viol {
			// Re-run with tracing so that the replay file shows the history.
			tv := ev.eval(c, true)
			if tv.Kind == "ok" {
				tv = v
			}
			st.Failing = &failRec{Case: c, Verdict: tv}
			// The message must be identical across shrink attempts (rapid only
			// accepts a shrink whose error string is the same), so run-time
			// details (random ids) go to the log, not the message.
			rt.Logf("%s", v.Reason)
			rt.Fatalf("%s %s", prop, v.Kind)
		}
	})
	for k, n := range excluded {
		st.Labels["excluded:"+k] += n
	}
	st.Completed = true
}

// genExcluded is called by generators when a draw was redirected away from a
// known-finding trigger or an out-of-domain shape.
var genExcluded = func(string) {}

// TestReplay runs one saved case (VERIF_REPLAY=path) VERIF_REPLAY_N times.
func TestReplay(t *testing.T) {
	path := os.Getenv("VERIF_REPLAY")
	if path == "" {
		t.Skip("replay entry point")
	}
	b, err := os.ReadFile(path)
	if err != nil {
		t.Fatal(err)
	}
	var rf struct {
		Case *Case `json:"case"`
	}
	if err := json.Unmarshal(b, &rf); err != nil || rf.Case == nil {
		t.Fatalf("bad replay file: %v", err)
	}
	c := rf.Case
	p := registry[c.Prop]
	if p == nil {
		t.Fatalf("unknown property %q", c.Prop)
	}
	n := 1
	if s := os.Getenv("VERIF_REPLAY_N"); s != "" {
		n, _ = strconv.Atoi(s)
	} else if hasPar(c) {
		n = 50
	}
	ev := &evaluator{p: p}
	defer func() {
		if ev.w != nil {
			ev.w.kill()
		}
	}()
	out := struct {
		Runs     int      `json:"runs"`
		Failed   int      `json:"failed"`
		Inconcl  int      `json:"inconclusive"`
		Verdict  *Verdict `json:"verdict,omitempty"`
	}{}
	slow := 0
	for i := 0; i < n && slow < 2; i++ {
		v := ev.eval(c, true)
		out.Runs++
		if strings.Contains(v.Reason, "real-time watchdog") || strings.Contains(v.Reason, "real clock") {
			slow++ // each such run takes minutes: two are enough
		}
		if os.Getenv("VERIF_REPLAY_TRACE") != "" && i == 0 {
			for _, l := range v.Trace {
				fmt.Println(l)
			}
			fmt.Println("verdict:", v.Kind, v.Reason)
		}
		viol, inc := isViolation(p, v)
		if inc {
			out.Inconcl++
		}
		if viol {
			out.Failed++
			if out.Verdict == nil {
				vv := v
				out.Verdict = &vv
			}
		}
	}
	rb, _ := json.Marshal(out)
	if rp := os.Getenv("VERIF_REPLAY_OUT"); rp != "" {
		_ = os.WriteFile(rp, rb, 0o644)
	}
	fmt.Printf("REPLAY %s\n", rb)
	if out.Failed > 0 {
		t.Fatalf("replay failed %d/%d", out.Failed, out.Runs)
	}
}

// TestMeta dumps the registry's static texts for the driver (rule, assumptions).
func TestMeta(t *testing.T) {
	path := os.Getenv("VERIF_META")
	if path == "" {
		t.Skip("meta entry point")
	}
	out := map[string]map[string]any{}
	for id, p := range registry {
		out[id] = map[string]any{"rule": p.Rule, "assumptions": p.Assumptions}
	}
	b, _ := json.Marshal(out)
	_ = os.WriteFile(path, b, 0o644)
}
