package harness

import (
	"crypto/sha256"
	"encoding/hex"
	"encoding/json"
)

// Case is a self-contained, pure-data test case. It is drawn by rapid in a
// shard process, sent as JSON to a worker, executed there inside a synctest
// bubble, and (on failure) written verbatim as the replay file.
type Case struct {
	Prop     string     `json:"property"`
	Engine   string     `json:"engine,omitempty"` // "router" (default), or a property-specific engine
	GMP      int        `json:"gomaxprocs,omitempty"`
	Realms   []RealmCfg `json:"realms,omitempty"`
	Template *RealmCfg  `json:"template,omitempty"`
	Sess     []SessCfg  `json:"sessions,omitempty"`
	Ops      []Op       `json:"ops,omitempty"`
	// Delays: hook point name -> list of [nth hit, virtual ns].
	Delays map[string][][2]int64 `json:"delays,omitempty"`
	// Free-form per-property parameters.
	P map[string]V `json:"p,omitempty"`
	// Property-specific payload (kept opaque for the generic machinery).
	X json.RawMessage `json:"x,omitempty"`
}

type RealmCfg struct {
	URI               string    `json:"uri"`
	Strict            bool      `json:"strict,omitempty"`
	AllowDisclose     bool      `json:"allow_disclose,omitempty"`
	Anonymous         bool      `json:"anonymous,omitempty"`
	RequireLocalAuth  bool      `json:"require_local_auth,omitempty"`
	RequireLocalAuthz bool      `json:"require_local_authz,omitempty"`
	MetaKill          bool      `json:"meta_kill,omitempty"`
	MetaModify        bool      `json:"meta_modify,omitempty"`
	MetaStrict        bool      `json:"meta_strict,omitempty"`
	MetaInclude       []string  `json:"meta_include,omitempty"`
	Auths             []string  `json:"authenticators,omitempty"` // "static", "ticket", "wampcra", "wampcra-salted", "cryptosign"
	Users             []UserCfg `json:"users,omitempty"`
	Authz             *AuthzCfg `json:"authorizer,omitempty"`
	History           []HistCfg `json:"history,omitempty"`
	CookieAuth        bool      `json:"cookie_auth,omitempty"` // key stores recognise clients by tracking cookie (auth.BypassKeyStore)
}

type UserCfg struct {
	AuthID string `json:"authid"`
	Role   string `json:"role"`
	Secret string `json:"secret,omitempty"`
	NoRole bool   `json:"norole,omitempty"` // the key store has a key but no role for this user
}

type HistCfg struct {
	Topic string `json:"topic"`
	Match string `json:"match,omitempty"`
	Limit int    `json:"limit"`
}

// AuthzCfg is a generated decision table for a test Authorizer.
type AuthzCfg struct {
	// Rules are matched first-to-last on (message type name, uri class, authid);
	// empty field = any. Default: allow.
	Rules []AuthzRule `json:"rules"`
}

type AuthzRule struct {
	Msg    string `json:"msg,omitempty"`    // PUBLISH SUBSCRIBE … ("" any)
	URI    string `json:"uri,omitempty"`    // exact URI ("" any)
	AuthID string `json:"authid,omitempty"` // ("" any)
	Act    string `json:"act"`              // allow deny fail rewrite scribble
	NewURI string `json:"new_uri,omitempty"`
}

type SessCfg struct {
	Realm     string              `json:"realm"`
	Transport string              `json:"transport,omitempty"` // local (default) rs-json rs-msgpack rs-cbor ws-json ws-msgpack ws-cbor
	QSize     int                 `json:"qsize,omitempty"`
	Roles     map[string][]string `json:"roles,omitempty"` // role -> features
	Hello     []KV                `json:"hello,omitempty"` // extra HELLO details
	AuthMeth  []string            `json:"authmethods,omitempty"`
	Secret    string              `json:"secret,omitempty"`
	NoJoin    bool                `json:"nojoin,omitempty"` // do not join in the prologue; a "join" op does it
	Rewrite   bool                `json:"rewrite,omitempty"` // in-process session that rewrites every EVENT/INVOCATION the moment it is handed over (robustness checks only)
	TransportAuth bool            `json:"transport_auth,omitempty"` // attach with transport details carrying auth data (websocket)
	KeepAlive     int64           `json:"keepalive,omitempty"`      // websocket ping/pong heartbeat interval of the router side, ns (0 = off)
	Cookie        string          `json:"cookie,omitempty"`         // tracking cookie the websocket request carried
	NextCookie    string          `json:"nextcookie,omitempty"`     // tracking cookie the server hands out for next time
	RecvLimit int                 `json:"recv_limit,omitempty"`     // server-side rawsocket receive limit
	Serializer string             `json:"serializer,omitempty"`     // serializer of the server side for raw websocket links
}

// Op is one abstract operation. Ids are references resolved at run time.
type Op struct {
	K    string `json:"k"`
	S    int    `json:"s"`
	Par  bool   `json:"par,omitempty"`
	URI  string `json:"uri,omitempty"`
	Ref  string `json:"ref,omitempty"`
	Opts []KV   `json:"opts,omitempty"`
	Args []V    `json:"args,omitempty"`
	Kw   []KV   `json:"kw,omitempty"`
	Ns   int64  `json:"ns,omitempty"`
	Err  string `json:"err,omitempty"`
	Mode string `json:"mode,omitempty"`
	N    int    `json:"n,omitempty"`
	Msg  *RawMsg `json:"msg,omitempty"`
}

// RawMsg describes an arbitrary WAMP message (C04, C09, C17): the type code and
// its fields in wire order as tagged values (ids and URIs may be refs).
type RawMsg struct {
	Type   int `json:"type"`
	Fields []V `json:"fields,omitempty"`
}

func (c *Case) JSON() []byte {
	b, err := json.Marshal(c)
	if err != nil {
		panic(err)
	}
	return b
}

func (c *Case) Hash() string {
	h := sha256.Sum256(c.JSON())
	return hex.EncodeToString(h[:8])
}

func CaseFromJSON(b []byte) (*Case, error) {
	var c Case
	if err := json.Unmarshal(b, &c); err != nil {
		return nil, err
	}
	return &c, nil
}

// helpers for option lists
func optGet(opts []KV, k string) (V, bool) {
	for i := len(opts) - 1; i >= 0; i-- {
		if opts[i].K == k {
			return opts[i].V, true
		}
	}
	return V{}, false
}

func optBool(opts []KV, k string) (val bool, isBool bool) {
	v, ok := optGet(opts, k)
	if !ok || v.T != "bool" {
		return false, false
	}
	return v.S == "true", true
}
