package harness

// C16 — client calls return their own reply, once, and honour cancellation.
// C17 — the client never crashes or hangs, whatever the router sends.
//
// Rig: the real client.Client on one end of transport.LinkedPeers, a scripted
// router on the other end, everything inside a synctest bubble. Requests carry
// correlation tokens (the ordinal of the API operation) from which the scripted
// router derives the reply, so that "its own reply" is decidable.

import (
	"context"
	"errors"
	"fmt"
	"runtime"
	"sort"
	"strings"
	"sync"
	"testing"
	"testing/synctest"
	"time"

	"github.com/gammazero/nexus/v3/client"
	"github.com/gammazero/nexus/v3/transport"
	"github.com/gammazero/nexus/v3/transport/serialize"
	"github.com/gammazero/nexus/v3/wamp"
	"pgregory.net/rapid"
)

func init() {
	register(&Property{
		ID: "C16",
		Rule: "rapid-generated client scenarios: 1-6 goroutines issue Subscribe, Unsubscribe, Register, Unregister, acknowledged Publish and Call (plain, with a progress handler, with a context that is cancelled or expires at a generated instant, every cancel mode) against a scripted router that answers each request according to a generated policy " +
			"(now / after a delay from the coincidence set around ResponseTimeout / twice / preceded by a reply with a foreign id / with an ERROR / never) and sends INVOCATIONs (new, duplicate and old ids), INTERRUPTs (before, while and after the handler runs) and EVENT bursts at generated virtual instants. " +
			"Oracle: every API call returns the reply carrying its own token or an error - ErrReplyTimeout exactly at ResponseTimeout when the reply is late or missing; progress results reach the handler in order and never after Call returned; a cancelled Call sends exactly one CANCEL with the configured mode and returns the context's error; " +
			"per new invocation id the handler ran once, saw its context cancelled on INTERRUPT, and exactly one YIELD or ERROR with that id reached the router; event handlers are never re-entered and see events in arrival order; Close returns and no goroutine is left. Non-trivial = >=3 concurrent API calls whose replies were reordered or coincided with a timer; distinct = case hash",
		Gen:             func(t *rapid.T) *Case { return genClientCase(t, false) },
		Exec:            func(t *testing.T, c *Case, trace bool) Verdict { return execClientRig(c, trace, "C16") },
		LivenessClaimed: true,
		ParRuns:         2,
		Assumptions: []string{
			"a Call whose CANCEL gets no answer at all may return the context error or ErrReplyTimeout; the context error is required when the router answers the CANCEL",
			"the scripted router always keeps reading, as a real router's session handler does",
		},
	})
	register(&Property{
		ID: "C17",
		Rule: "the C16 rig with a hostile script: in addition the router sends messages of any type at any time, replies and invocations with unknown ids, details and arguments of every value type - in particular payload-passthru fields (ppt_scheme, ppt_serializer, payload shapes) as a hostile other client could set them -, " +
			"replies exactly at the timeout instant, GOODBYE / ABORT / transport drop at any point, while API calls and Close() run from several goroutines. Oracle: the worker process stays alive (panic = crash verdict); after the longest timeout every API goroutine has returned; Done() is closed once GOODBYE/ABORT/EOF was delivered; " +
			"Close() returned; later calls return errors; a benign request issued after the hostile burst (while the session is still open) is answered; the bubble ends with no client goroutine or handler left. Non-trivial = a script with a hostile-typed detail reaching a handler path or a reply coinciding with a timer; distinct = case hash",
		Gen:             func(t *rapid.T) *Case { return genClientCase(t, true) },
		Exec:            func(t *testing.T, c *Case, trace bool) Verdict { return execClientRig(c, trace, "C17") },
		LivenessClaimed: true,
		ParRuns:         2,
		Assumptions: []string{
			"hostile values are Go values an in-process router peer can deliver; serialised transports cannot produce all of them",
		},
	})
}

const rigRT = 200 * time.Millisecond // client ResponseTimeout in the rig

func idOf(ordinal int) wamp.ID { return wamp.ID(1000 + ordinal) }

// ---- generator -------------------------------------------------------------------

// API ops: K = subscribe unsubscribe register unregister publish call sleep close
//   S = goroutine, N = ordinal (token), URI derived from ordinal, Ref = ordinal of the op it refers to (unsubscribe/unregister)
//   Opts: reply (now delay never dup foreign error), delay (ns), ctx (none timeout cancel), ctxns, mode, progress (n), handler (fast slow wait progress), hsleep
// Router ops: K = rinvoke rinterrupt revent rraw rgoodbye rabort rdrop ; Ns = at (virtual ns since start)
func genClientCase(t *rapid.T, hostile bool) *Case {
	c := &Case{P: map[string]V{}}
	c.GMP = pick(t, []int{0, 1, 2, 4}, "gmp")
	ng := 1 + uni(t, 6, "ngoroutines")
	ordinal := 0
	delays := []int64{0, 1, int64(rigRT) - 1, int64(rigRT), int64(rigRT) + 1, int64(rigRT) / 2, 2 * int64(rigRT)}
	policy := func() []KV {
		var o []KV
		switch k := uni(t, 100, "pol"); {
		case k < 45:
			o = append(o, KV{"reply", VStr("now")})
		case k < 70:
			o = append(o, KV{"reply", VStr("delay")}, KV{"delay", VI64(pick(t, delays, "delay"))})
		case k < 78:
			o = append(o, KV{"reply", VStr("never")})
		case k < 86:
			o = append(o, KV{"reply", VStr("dup")})
		case k < 93:
			o = append(o, KV{"reply", VStr("foreign")})
		default:
			o = append(o, KV{"reply", VStr("error")})
		}
		return o
	}
	type made struct {
		ord, g  int
		chunked bool
	}
	var subs, regs, unsubbable, unreggable []made
	for g := 0; g < ng; g++ {
		n := 1 + uni(t, 5, "nops")
		for i := 0; i < n; i++ {
			ordinal++
			op := Op{S: g, N: ordinal, Par: true}
			switch k := uni(t, 100, "k"); {
			case k < 18:
				op.K = "subscribe"
				op.Opts = policy()
				subs = append(subs, made{ordinal, g, false})
				unsubbable = append(unsubbable, made{ordinal, g, false})
			case k < 26 && len(unsubbable) > 0:
				op.K = "unsubscribe"
				// one Unsubscribe per subscription: UNSUBSCRIBE carries no token, the
				// subscription id is what correlates it with this operation
				k := uni(t, len(unsubbable), "whichsub")
				op.Ref = fmt.Sprint(unsubbable[k].ord)
				unsubbable = append(unsubbable[:k:k], unsubbable[k+1:]...)
				op.Opts = policy()
			case k < 42:
				op.K = "register"
				kinds := []string{"fast", "fast", "slow", "wait", "progress", "error", "chunked"}
				if hostile {
					kinds = append(kinds, "ctxwait")
				}
				op.Opts = append(policy(), KV{"handler", VStr(pick(t, kinds, "handler"))}, KV{"hsleep", VI64(pick(t, []int64{1, 1e6, 50e6}, "hsleep"))})
				chunked := optStr(&op, "handler", "") == "chunked"
				regs = append(regs, made{ordinal, g, chunked})
				unreggable = append(unreggable, made{ordinal, g, chunked})
			case k < 48 && len(unreggable) > 0:
				op.K = "unregister"
				k := uni(t, len(unreggable), "whichreg")
				op.Ref = fmt.Sprint(unreggable[k].ord)
				unreggable = append(unreggable[:k:k], unreggable[k+1:]...)
				op.Opts = policy()
			case k < 60:
				op.K = "publish"
				op.Opts = policy()
			case k < 92:
				op.K = "call"
				op.Opts = policy()
				if pct(t, 40, "progress") {
					op.Opts = append(op.Opts, KV{"progress", VInt(1 + uni(t, 4, "nprog"))})
				}
				switch uni(t, 4, "ctx") {
				case 0:
					op.Opts = append(op.Opts, KV{"ctx", VStr("timeout")}, KV{"ctxns", VI64(pick(t, delays, "ctxns"))})
				case 1:
					op.Opts = append(op.Opts, KV{"ctx", VStr("cancel")}, KV{"ctxns", VI64(pick(t, delays, "cancelns"))})
				}
				op.Opts = append(op.Opts, KV{"cancelreply", VStr(pick(t, []string{"error", "error", "none", "result", "stream"}, "cancelreply"))})
				if hostile && pct(t, 12, "pptcall") {
					// the application asks for payload pass-through: a valid request, an unknown
					// scheme, an unknown serializer - against a router that may not have announced it
					op.Opts = append(op.Opts, KV{"ppt", VStr(pick(t, []string{"x", "x", "badscheme", "badserializer", "mqtt"}, "pptkind"))})
				}
				if _, hasCtx := optGet(op.Opts, "ctx"); !hasCtx && pct(t, 30, "callprog") {
					// a progressive call: the payload is fed in chunks through a callback
					op.K = "callprog"
					op.Opts = append(op.Opts, KV{"chunks", VInt(1 + uni(t, 4, "nchunks"))}, KV{"finalunset", VBool(pct(t, 50, "finalunset"))}, KV{"gap", VI64(pick(t, []int64{0, 1, 1e6}, "gap"))})
				}
			default:
				op.K = "sleep"
				op.Ns = pick(t, delays, "sleep")
			}
			c.Ops = append(c.Ops, op)
		}
	}
	c.P["cancelmode"] = VStr(pick(t, []string{"", "kill", "killnowait", "skip"}, "cancelmode"))
	// router-initiated traffic
	nr := uni(t, 8, "nrouter")
	times := []int64{0, 1, 1e6, 10e6, 50e6, int64(rigRT) - 1, int64(rigRT), int64(rigRT) + 1, 2 * int64(rigRT), 3 * int64(rigRT)}
	invID := 0
	dupped := map[int]bool{}
	chunkedID := map[int]bool{}
	for i := 0; i < nr; i++ {
		op := Op{S: -1, Ns: pick(t, times, "at")}
		switch k := uni(t, 100, "rk"); {
		case k < 40 && len(regs) > 0:
			op.K = "rinvoke"
			reg := pick(t, regs, "ireg")
			op.Ref = fmt.Sprint(reg.ord)
			if reg.chunked {
				// a progressive call invocation: the same id several times, all but the last marked progress
				invID++
				op.K, op.N = "rinvokeprog", invID
				chunkedID[invID] = true
				op.Opts = []KV{{"chunks", VInt(1 + uni(t, 4, "ichunks"))}, {"gap", VI64(pick(t, []int64{0, 1, 1e6}, "igap"))}}
				c.Ops = append(c.Ops, op)
				continue
			}
			if invID > len(chunkedID) && pct(t, 25, "dupinv") && (hostile || len(dupped) < invID-len(chunkedID)) {
				// duplicate / old invocation id. A third INVOCATION with the id of a
				// running one is router misbehaviour: hostile scripts only.
				op.N = 1 + uni(t, invID, "oldinv")
				for chunkedID[op.N] || (!hostile && dupped[op.N]) {
					op.N = op.N%invID + 1
				}
				dupped[op.N] = true
			} else {
				invID++
				op.N = invID
			}
			if pct(t, 40, "rp") {
				op.Mode = "receive_progress"
			}
			if pct(t, 15, "invtimeout") {
				op.Opts = []KV{{"timeout", VI64(pick(t, []int64{1, 50}, "ito"))}}
			}
		case k < 60 && invID > 0:
			op.K = "rinterrupt"
			op.N = 1 + uni(t, invID+1, "intinv")
		case k < 90 && len(subs) > 0:
			op.K = "revent"
			op.Ref = fmt.Sprint(pick(t, subs, "esub").ord)
			op.N = 1 + uni(t, 5, "burst")
		default:
			op.K = "revent"
			op.Ref = "9999"
			op.N = 1
		}
		c.Ops = append(c.Ops, op)
	}
	if hostile {
		nh := 1 + uni(t, 8, "nhostile")
		for i := 0; i < nh; i++ {
			op := Op{S: -1, Ns: pick(t, times, "hat"), N: 777}
			switch k := uni(t, 100, "hk"); {
			case k < 34:
				op.K = "rraw"
				op.Msg = genHostileRouterMsg(t, ordinal, invID)
			case k < 46:
				// PPT fields as another, hostile client could set them
				op.K = "rraw"
				sub := 9999
				if len(subs) > 0 {
					sub = pick(t, subs, "psub").ord
				}
				details := VDict(KV{"ppt_scheme", pick(t, []V{VStr("x_a"), VStr("mqtt"), VStr("wamp"), VStr("bogus"), VI64(1)}, "scheme")},
					KV{"ppt_serializer", pick(t, []V{VStr("json"), VStr("cbor"), VStr("msgpack"), VStr("native"), VStr("nope"), VI64(3), VNil(), VList()}, "pser")})
				// payload shapes: absent, wrong types, garbage, and well-formed encodings of
				// the wrong thing (each serializer's null, a scalar, a list, an empty payload)
				args := pick(t, []V{VNil(), VList(), VList(VStr("x")), VList(VBin([]byte{0xff, 0x00})), VList(VI64(1), VI64(2)), VList(VDict()),
					VList(VBin([]byte("null"))), VList(VBin([]byte{0xf6})), VList(VBin([]byte{0xc0})), VList(VStr("null")),
					VList(VBin([]byte("7"))), VList(VBin([]byte("[1,2]"))), VList(VBin([]byte("{}"))), VList(VBin([]byte{0xa0})), VList(VBin([]byte{0x80})),
					VList(VBin([]byte(`{"args":[1],"kwargs":{"k":2}}`))), VList(VBin([]byte(`{"args":7,"kwargs":[]}`)))}, "pargs")
				if pct(t, 25, "pptresult") {
					// as the RESULT of one of the client's own calls
					op.Msg = &RawMsg{Type: 50, Fields: []V{VID(uint64(1 + uni(t, ordinal+2, "pptreq"))), details, args}}
				} else if pct(t, 50, "pptevent") || len(regs) == 0 {
					op.Msg = &RawMsg{Type: 36, Fields: []V{VID(uint64(idOf(sub))), VID(5), details, args}}
				} else {
					invID++
					op.Msg = &RawMsg{Type: 68, Fields: []V{VID(uint64(invID)), VID(uint64(idOf(pick(t, regs, "preg").ord))), details, args}}
				}
			case k < 54 && len(regs) > 0:
				// three or four progressive chunks in a row for a handler that does not return per chunk
				invID++
				chunkedID[invID] = true
				op.K, op.N, op.Ref = "rinvokeprog", invID, fmt.Sprint(pick(t, regs, "preg").ord)
				op.Opts = []KV{{"chunks", VInt(3 + uni(t, 2, "hchunks"))}, {"gap", VI64(0)}}
			case k < 61 && len(regs) > 0:
				// the same INVOCATION three times at once
				invID++
				reg := pick(t, regs, "treg").ord
				for j := 0; j < 2; j++ {
					c.Ops = append(c.Ops, Op{K: "rinvoke", S: -1, Ns: op.Ns, N: invID, Ref: fmt.Sprint(reg)})
				}
				op.K, op.N, op.Ref = "rinvoke", invID, fmt.Sprint(reg)
			case k < 67:
				// a progressive RESULT or an ERROR for some request, wanted or not
				op.K = "rraw"
				req := VID(uint64(1 + uni(t, ordinal+2, "preq")))
				if pct(t, 60, "progres") {
					op.Msg = &RawMsg{Type: 50, Fields: []V{req, VDict(KV{"progress", VBool(true)}), VList(VI64(1), VI64(1))}}
				} else {
					op.Msg = &RawMsg{Type: 8, Fields: []V{VI64(int64(pick(t, []int{48, 32, 64, 16, 34, 66}, "petype"))), req, VDict(), VURI("wamp.error.canceled")}}
				}
			case k < 73:
				op.K = "rgoodbye"
			case k < 80:
				op.K = "rabort"
			case k < 87:
				op.K = "rdrop"
			default:
				op.K = "rraw"
				op.Msg = &RawMsg{Type: 50, Fields: []V{VID(uint64(1 + uni(t, ordinal+2, "rid"))), genHostileValue(t, true), genHostileValue(t, true), genHostileValue(t, true)}}
			}
			c.Ops = append(c.Ops, op)
		}
		c.P["features"] = VStr(pick(t, []string{"full", "full", "basic", "noppt", "none"}, "features"))
		// goroutines that close the client at some point, then keep using it
		ncl := pick(t, []int{0, 0, 1, 1, 2}, "closers")
		for k := 0; k < ncl; k++ {
			c.Ops = append(c.Ops, Op{K: "close", S: ng + k, Ns: pick(t, times, "closeat"), Par: true})
			if pct(t, 50, "latecall") {
				ordinal++
				c.Ops = append(c.Ops, Op{K: pick(t, []string{"subscribe", "publish", "call", "register"}, "latek"), S: ng + k, N: ordinal, Par: true,
					Opts: []KV{{"reply", VStr("now")}, {"cancelreply", VStr("error")}, {"handler", VStr("fast")}}})
			}
		}
	}
	return c
}

func genHostileRouterMsg(t *rapid.T, maxReq, maxInv int) *RawMsg {
	typ := pick(t, []int{1, 2, 3, 4, 5, 8, 16, 17, 32, 33, 34, 35, 36, 48, 49, 50, 64, 65, 66, 67, 68, 69, 70}, "mtype")
	id := func() V {
		switch uni(t, 4, "idk") {
		case 0:
			return VID(uint64(1 + uni(t, maxReq+2, "req")))
		case 1:
			return VID(uint64(idOf(1 + uni(t, maxReq+1, "sub"))))
		case 2:
			return VID(pick(t, []uint64{0, 1 << 53, 1<<53 + 1, 1 << 63}, "odd"))
		}
		return VID(uint64(1 + uni(t, maxInv+2, "inv")))
	}
	d := func() V { return V{T: "dict", K: genHostileOpts(t, true, 3)} }
	l := func() V {
		if pct(t, 30, "nil") {
			return VNil()
		}
		return VList(genArgs(t, valOpts{bin: true, big: true, native: true})...)
	}
	u := VURI(pick(t, []string{"wamp.error.canceled", "a.b", "", "wamp.close.normal"}, "uri"))
	var f []V
	switch typ {
	case 1:
		f = []V{u, d()}
	case 2:
		f = []V{id(), d()}
	case 3:
		f = []V{d(), u}
	case 4:
		f = []V{VStr("ticket"), d()}
	case 5:
		f = []V{VStr("sig"), d()}
	case 8:
		f = []V{VI64(int64(pick(t, []int{48, 32, 64, 16, 34, 66, 68, 1}, "etype"))), id(), d(), u, l(), d()}
	case 16, 48:
		f = []V{id(), d(), u, l(), d()}
	case 17, 33, 65, 34, 66:
		f = []V{id(), id()}
	case 32, 64:
		f = []V{id(), d(), u}
	case 35, 67:
		f = []V{id()}
	case 36, 68:
		f = []V{id(), id(), d(), l(), d()}
	case 49, 69:
		f = []V{id(), d()}
	case 50, 70:
		f = []V{id(), d(), l(), d()}
	}
	return &RawMsg{Type: typ, Fields: f}
}

// ---- executor -----------------------------------------------------------------------

type apiResult struct {
	op       *Op
	start    time.Duration
	end      time.Duration
	err      error
	result   *wamp.Result
	returned bool
	afterClose bool // started after a Close() of the client had returned
}

type rig struct {
	c        *Case
	prop     string
	hostile  bool
	t0       time.Time
	cli      *client.Client
	rp       wamp.Peer // router side
	mu       sync.Mutex
	results  map[int]*apiResult // by ordinal
	ops      map[int]*Op
	trace    []string
	keep     bool
	viol     string
	// observations at the router
	cancels   map[wamp.ID][]string // call request id -> modes
	callReq   map[int]wamp.ID      // ordinal -> request id
	reqOrd    map[wamp.ID]int
	invAnswers map[wamp.ID]int // invocation id -> number of YIELD/ERROR (non-progress) received
	invSent   map[wamp.ID]int  // invocation id -> times sent as new (first time)
	handlerRuns map[wamp.ID]int
	handlerCancelled map[wamp.ID]bool
	interrupted map[wamp.ID]bool
	interruptedWhileRunning map[wamp.ID]bool
	invOnWire map[wamp.ID]bool
	handlerDone map[wamp.ID]bool
	running   map[wamp.ID]bool
	progSeen  map[int][]int // call ordinal -> progress seq seen by handler
	progAfterReturn map[int]bool
	evSeq     map[int][]int // sub ordinal -> seqs in handler order
	evSent    map[int]int
	undone    map[int]bool
	invCh     map[wamp.ID]chan struct{}
	invKind   map[wamp.ID]string
	invChunksSent map[wamp.ID]int
	invChunks map[wamp.ID][]int // chunk numbers in the order the handler saw them
	chunkBusy map[wamp.ID]bool
	chunkOverlap bool
	callChunks map[int][]int // callprog ordinal -> chunk numbers in the order the router saw them
	invTimeout map[wamp.ID]bool
	invOnce   map[wamp.ID]*sync.Once
	ready     map[int]chan struct{} // closed when Subscribe/Register #ord returned successfully
	evBusy    bool
	evReentered bool
	closeReturned bool
	clientAborted bool
	routerEndClosed bool
	routerClosedClient bool // router sent GOODBYE/ABORT or dropped
	sendMu    sync.Mutex
	routerDone chan struct{}
	wg        sync.WaitGroup // router-side helper goroutines
	labels    map[string]int
	reordered bool
	timerCoincidence bool
}

// live reports whether the Subscribe/Register with that ordinal has returned
// successfully and no Unsubscribe/Unregister for it has been started. The
// scripted router only sends events and invocations for live ones: what the
// client does with traffic that overtakes the return of Subscribe/Register is
// not the subject of C16/C17.
func (r *rig) live(ord int) bool {
	r.mu.Lock()
	defer r.mu.Unlock()
	res := r.results[ord]
	if res == nil {
		return ord == 9999 // the deliberately unknown subscription
	}
	return res.returned && res.err == nil && !r.undone[ord]
}

func (r *rig) now() time.Duration { return time.Since(r.t0) }

func (r *rig) tr(format string, a ...any) {
	if r.keep {
		r.mu.Lock()
		r.trace = append(r.trace, fmt.Sprintf("[%v] ", r.now())+fmt.Sprintf(format, a...))
		r.mu.Unlock()
	}
}

func (r *rig) fail(format string, a ...any) {
	r.mu.Lock()
	if r.viol == "" {
		r.viol = fmt.Sprintf(format, a...)
	}
	r.mu.Unlock()
}

func (r *rig) label(l string) {
	r.mu.Lock()
	r.labels[l]++
	r.mu.Unlock()
}

// routerSend delivers a message to the client unless the client end is gone.
func (r *rig) closeRouterEnd() {
	r.sendMu.Lock()
	defer r.sendMu.Unlock()
	if !r.routerEndClosed {
		r.routerEndClosed = true
		r.rp.Close()
	}
}

func (r *rig) routerSend(m wamp.Message) bool {
	r.sendMu.Lock()
	defer r.sendMu.Unlock()
	return r.routerSendLocked(m)
}

func (r *rig) routerSendLocked(m wamp.Message) bool {
	if r.routerEndClosed {
		return false
	}
	// rendered before the hand-over: over an in-process link the receiver owns the
	// message from then on and may rewrite it (the client unpacks pass-through
	// payloads in place)
	var line string
	if r.keep {
		line = MsgString(m)
	}
	select {
	case r.rp.Send() <- m:
		if r.keep {
			r.tr("router -> %s", line)
		}
		return true
	case <-r.routerDone:
		return false
	case <-r.cli.Done():
		// the client's run loop has ended: nobody reads any more
		return false
	}
}

func (r *rig) later(d time.Duration, f func()) {
	r.wg.Add(1)
	go func() {
		defer r.wg.Done()
		if d > 0 {
			t := time.NewTimer(d)
			select {
			case <-t.C:
			case <-r.routerDone:
				t.Stop()
				return
			}
		}
		f()
	}()
}

// afterReady runs f the given time after Subscribe/Register #ord has returned successfully.
func (r *rig) afterReady(ord int, d time.Duration, f func()) {
	ch := r.ready[ord]
	if ch == nil {
		return
	}
	r.wg.Add(1)
	go func() {
		defer r.wg.Done()
		select {
		case <-ch:
		case <-r.routerDone:
			return
		}
		r.later(d, f)
	}()
}

func optStr(op *Op, k, def string) string {
	if v, ok := optGet(op.Opts, k); ok {
		return v.S
	}
	return def
}

func optInt(op *Op, k string) int64 {
	if v, ok := optGet(op.Opts, k); ok {
		n, _ := wamp.AsInt64(v.Go())
		return n
	}
	return 0
}

// reply applies the op's policy to a reply message.
func (r *rig) reply(op *Op, req wamp.ID, mk func(id wamp.ID) wamp.Message, mkErr func(id wamp.ID) wamp.Message) {
	switch optStr(op, "reply", "now") {
	case "now":
		r.routerSend(mk(req))
	case "delay":
		d := time.Duration(optInt(op, "delay"))
		if d >= rigRT-1 && d <= rigRT+1 {
			r.timerCoincidence = true
		}
		r.later(d, func() { r.routerSend(mk(req)) })
	case "never":
	case "dup":
		r.routerSend(mk(req))
		r.routerSend(mk(req))
	case "foreign":
		r.routerSend(mk(req + 5000))
		r.routerSend(mk(req))
	case "error":
		r.routerSend(mkErr(req))
	}
}

func (r *rig) routerLoop() {
	defer func() {
		// the client closed its end: a router drops the session and closes its own end
		close(r.routerDone) // releases senders blocked on a client that reads no more
		r.closeRouterEnd()
	}()
	for m := range r.rp.Recv() {
		r.tr("router <- %s", MsgString(m))
		switch x := m.(type) {
		case *wamp.Abort:
			r.mu.Lock()
			r.clientAborted = true
			r.mu.Unlock()
		case *wamp.Subscribe:
			ord := ordOfURI(string(x.Topic))
			op := r.ops[ord]
			if op == nil {
				continue
			}
			r.reply(op, x.Request, func(id wamp.ID) wamp.Message { return &wamp.Subscribed{Request: id, Subscription: idOf(ord)} },
				func(id wamp.ID) wamp.Message {
					return &wamp.Error{Type: wamp.SUBSCRIBE, Request: id, Details: wamp.Dict{}, Error: "verif.error", Arguments: wamp.List{ord}}
				})
		case *wamp.Unsubscribe:
			op := r.findRefOp("unsubscribe", int(x.Subscription)-1000)
			if op == nil {
				continue
			}
			r.reply(op, x.Request, func(id wamp.ID) wamp.Message { return &wamp.Unsubscribed{Request: id} },
				func(id wamp.ID) wamp.Message {
					return &wamp.Error{Type: wamp.UNSUBSCRIBE, Request: id, Details: wamp.Dict{}, Error: "verif.error"}
				})
		case *wamp.Register:
			ord := ordOfURI(string(x.Procedure))
			op := r.ops[ord]
			if op == nil {
				continue
			}
			r.reply(op, x.Request, func(id wamp.ID) wamp.Message { return &wamp.Registered{Request: id, Registration: idOf(ord)} },
				func(id wamp.ID) wamp.Message {
					return &wamp.Error{Type: wamp.REGISTER, Request: id, Details: wamp.Dict{}, Error: "verif.error", Arguments: wamp.List{ord}}
				})
		case *wamp.Unregister:
			op := r.findRefOp("unregister", int(x.Registration)-1000)
			if op == nil {
				continue
			}
			r.reply(op, x.Request, func(id wamp.ID) wamp.Message { return &wamp.Unregistered{Request: id} },
				func(id wamp.ID) wamp.Message {
					return &wamp.Error{Type: wamp.UNREGISTER, Request: id, Details: wamp.Dict{}, Error: "verif.error"}
				})
		case *wamp.Publish:
			ord := ordOfURI(string(x.Topic))
			op := r.ops[ord]
			if op == nil {
				continue
			}
			r.reply(op, x.Request, func(id wamp.ID) wamp.Message { return &wamp.Published{Request: id, Publication: idOf(ord)} },
				func(id wamp.ID) wamp.Message {
					return &wamp.Error{Type: wamp.PUBLISH, Request: id, Details: wamp.Dict{}, Error: "verif.error", Arguments: wamp.List{ord}}
				})
		case *wamp.Call:
			ord := 0
			if len(x.Arguments) > 0 {
				n, _ := wamp.AsInt64(x.Arguments[0])
				ord = int(n)
			}
			op := r.ops[ord]
			if op == nil {
				continue
			}
			r.mu.Lock()
			if prev, seen := r.callReq[ord]; seen && prev != x.Request {
				r.mu.Unlock()
				r.fail("%s#%d: its CALL messages carry different request ids (%d, %d)", op.K, ord, prev, x.Request)
				continue
			}
			r.callReq[ord] = x.Request
			r.reqOrd[x.Request] = ord
			moreChunks := false
			if op.K == "callprog" {
				k := 0
				if len(x.Arguments) > 1 {
					n, _ := wamp.AsInt64(x.Arguments[1])
					k = int(n)
				}
				r.callChunks[ord] = append(r.callChunks[ord], k)
				moreChunks, _ = x.Options["progress"].(bool)
			}
			r.mu.Unlock()
			if moreChunks {
				continue // the call is answered when its final chunk has arrived
			}
			nprog := int(optInt(op, "progress"))
			wantsProg, _ := x.Options["receive_progress"].(bool)
			if (nprog > 0) != wantsProg {
				r.fail("Call #%d: receive_progress=%v on the wire but a progress handler was %v", ord, wantsProg, nprog > 0)
			}
			final := func(id wamp.ID) wamp.Message {
				return &wamp.Result{Request: id, Details: wamp.Dict{}, Arguments: wamp.List{ord, "final"}}
			}
			errm := func(id wamp.ID) wamp.Message {
				return &wamp.Error{Type: wamp.CALL, Request: id, Details: wamp.Dict{}, Error: "verif.error", Arguments: wamp.List{ord}}
			}
			req := x.Request
			sendAll := func(mk func(id wamp.ID) wamp.Message) {
				for p := 1; p <= nprog; p++ {
					if !r.routerSend(&wamp.Result{Request: req, Details: wamp.Dict{"progress": true}, Arguments: wamp.List{ord, p}}) {
						return
					}
				}
				r.routerSend(mk(req))
			}
			switch optStr(op, "reply", "now") {
			case "now":
				sendAll(final)
			case "delay":
				d := time.Duration(optInt(op, "delay"))
				r.later(d, func() { sendAll(final) })
			case "never":
			case "dup":
				sendAll(final)
				r.routerSend(final(req))
			case "foreign":
				r.routerSend(final(req + 5000))
				sendAll(final)
			case "error":
				sendAll(errm)
			}
		case *wamp.Cancel:
			mode, _ := wamp.AsString(x.Options["mode"])
			r.mu.Lock()
			r.cancels[x.Request] = append(r.cancels[x.Request], mode)
			ord := r.reqOrd[x.Request]
			r.mu.Unlock()
			op := r.ops[ord]
			if op == nil {
				continue
			}
			req := x.Request
			switch optStr(op, "cancelreply", "error") {
			case "error":
				r.routerSend(&wamp.Error{Type: wamp.CALL, Request: req, Details: wamp.Dict{}, Error: wamp.ErrCanceled})
			case "result":
				r.routerSend(&wamp.Result{Request: req, Details: wamp.Dict{}, Arguments: wamp.List{ord, "final"}})
				r.routerSend(&wamp.Error{Type: wamp.CALL, Request: req, Details: wamp.Dict{}, Error: wamp.ErrCanceled})
			case "stream":
				// kill mode with a callee that ignores the INTERRUPT: no answer to the CANCEL,
				// progressive results keep coming, more often than once per response timeout
				if np := int(optInt(op, "progress")); np > 0 {
					for i := 1; i <= 6; i++ {
						seq := np + i
						r.later(time.Duration(i)*rigRT/2, func() {
							r.routerSend(&wamp.Result{Request: req, Details: wamp.Dict{"progress": true}, Arguments: wamp.List{ord, seq}})
						})
					}
				}
			}
		case *wamp.Yield:
			if p, _ := x.Options["progress"].(bool); !p {
				r.mu.Lock()
				r.invAnswers[x.Request]++
				r.mu.Unlock()
			}
		case *wamp.Error:
			if x.Type == wamp.INVOCATION {
				if len(x.Arguments) == 1 {
					if txt, _ := x.Arguments[0].(string); strings.Contains(txt, "no handler for registration") {
						// not an answer of a handler: the registration was removed concurrently
						r.label("invocation_refused_no_handler")
						continue
					}
				}
				r.mu.Lock()
				r.invAnswers[x.Request]++
				r.mu.Unlock()
			}
		case *wamp.Goodbye:
			r.routerSend(&wamp.Goodbye{Reason: wamp.ErrGoodbyeAndOut, Details: wamp.Dict{}})
		}
	}
}

func ordOfURI(u string) int {
	i := strings.LastIndex(u, ".")
	n := 0
	fmt.Sscanf(u[i+1:], "n%d", &n)
	return n
}

func (r *rig) findRefOp(kind string, refOrd int) *Op {
	// the most recent not yet used op of that kind referring to refOrd
	for i := range r.c.Ops {
		op := &r.c.Ops[i]
		if op.K == kind && op.Ref == fmt.Sprint(refOrd) {
			return op
		}
	}
	return nil
}

func execClientRig(c *Case, trace bool, prop string) Verdict {
	v := Verdict{Kind: "ok", Prop: prop}
	r := &rig{c: c, prop: prop, hostile: prop == "C17", t0: time.Now(), results: map[int]*apiResult{}, ops: map[int]*Op{}, keep: trace,
		cancels: map[wamp.ID][]string{}, callReq: map[int]wamp.ID{}, reqOrd: map[wamp.ID]int{}, invAnswers: map[wamp.ID]int{}, invSent: map[wamp.ID]int{},
		handlerRuns: map[wamp.ID]int{}, handlerCancelled: map[wamp.ID]bool{}, interrupted: map[wamp.ID]bool{}, interruptedWhileRunning: map[wamp.ID]bool{}, invOnWire: map[wamp.ID]bool{}, handlerDone: map[wamp.ID]bool{}, running: map[wamp.ID]bool{},
		progSeen: map[int][]int{}, progAfterReturn: map[int]bool{}, evSeq: map[int][]int{}, evSent: map[int]int{}, undone: map[int]bool{}, routerDone: make(chan struct{}), labels: map[string]int{}}
	r.invCh, r.invOnce = map[wamp.ID]chan struct{}{}, map[wamp.ID]*sync.Once{}
	r.invKind, r.invTimeout = map[wamp.ID]string{}, map[wamp.ID]bool{}
	r.invChunksSent, r.invChunks, r.chunkBusy, r.callChunks = map[wamp.ID]int{}, map[wamp.ID][]int{}, map[wamp.ID]bool{}, map[int][]int{}
	for i := range c.Ops {
		if (c.Ops[i].K == "rinvoke" || c.Ops[i].K == "rinvokeprog") && r.invCh[wamp.ID(c.Ops[i].N)] == nil {
			r.invCh[wamp.ID(c.Ops[i].N)] = make(chan struct{})
			r.invOnce[wamp.ID(c.Ops[i].N)] = &sync.Once{}
		}
	}
	r.ready = map[int]chan struct{}{9999: make(chan struct{})}
	close(r.ready[9999])
	for i := range c.Ops {
		if c.Ops[i].S >= 0 && c.Ops[i].N > 0 {
			r.ops[c.Ops[i].N] = &c.Ops[i]
			if k := c.Ops[i].K; k == "subscribe" || k == "register" {
				r.ready[c.Ops[i].N] = make(chan struct{})
			}
		}
	}
	fail := func(format string, a ...any) Verdict {
		return Verdict{Kind: "violation", Prop: prop, Reason: fmt.Sprintf(format, a...), Trace: r.trace}
	}
	cp, rp := transport.LinkedPeers()
	r.rp = rp
	// handshake by hand, then the scripted router takes over
	type made struct {
		cli *client.Client
		err error
	}
	mc := make(chan made, 1)
	log := newRingLog(200)
	go func() {
		cl, err := client.NewClient(cp, client.Config{Realm: "r1", ResponseTimeout: rigRT, Logger: log})
		mc <- made{cl, err}
	}()
	synctest.Wait()
	select {
	case m := <-rp.Recv():
		if _, ok := m.(*wamp.Hello); !ok {
			return Verdict{Kind: "inconclusive", Reason: "client did not send HELLO"}
		}
	default:
		return Verdict{Kind: "inconclusive", Reason: "no HELLO"}
	}
	// what the nexus router itself announces
	feat := wamp.Dict{"features": wamp.Dict{"payload_passthru_mode": true, "call_canceling": true, "call_timeout": true, "caller_identification": true, "pattern_based_registration": true,
		"progressive_call_results": true, "progressive_call_invocations": true, "shared_registration": true, "session_meta_api": true,
		"pattern_based_subscription": true, "publisher_exclusion": true, "publisher_identification": true, "subscriber_blackwhite_listing": true, "event_history": true}}
	switch c.P["features"].S {
	case "basic":
		feat = wamp.Dict{"features": wamp.Dict{"payload_passthru_mode": true, "call_canceling": true, "progressive_call_results": true, "progressive_call_invocations": true}}
	case "noppt": // pass-through fields from a router that never announced the feature
		feat = wamp.Dict{"features": wamp.Dict{"call_canceling": true, "progressive_call_results": true}}
	case "none":
		feat = wamp.Dict{}
	}
	rp.Send() <- &wamp.Welcome{ID: 4242, Details: wamp.Dict{"roles": wamp.Dict{"broker": feat, "dealer": feat}, "authid": "x", "authrole": "y"}}
	synctest.Wait()
	m := <-mc
	if m.err != nil {
		return Verdict{Kind: "inconclusive", Reason: "client could not join: " + m.err.Error()}
	}
	r.cli = m.cli
	if cm := c.P["cancelmode"].S; cm != "" {
		_ = r.cli.SetCallCancelMode(cm)
	}
	r.t0 = time.Now()
	go r.routerLoop()

	// router-initiated traffic
	for i := range c.Ops {
		op := &c.Ops[i]
		if op.S != -1 {
			continue
		}
		at := time.Duration(op.Ns)
		switch op.K {
		case "rinvoke":
			ord := 0
			fmt.Sscan(op.Ref, &ord)
			inv := wamp.ID(op.N)
			details := wamp.Dict{}
			if op.Mode == "receive_progress" {
				details["receive_progress"] = true
			}
			if to := optInt(op, "timeout"); to > 0 {
				details["timeout"] = to
			}
			r.afterReady(ord, at, func() {
				if !r.live(ord) {
					r.label("invocation_skipped_unregistered")
					return
				}
				r.label("invocation_sent")
				r.mu.Lock()
				r.invSent[inv]++
				if r.invSent[inv] == 1 {
					r.invKind[inv] = optStr(r.ops[ord], "handler", "fast")
					r.invTimeout[inv] = optInt(op, "timeout") > 0
				}
				r.mu.Unlock()
				if r.routerSend(&wamp.Invocation{Request: inv, Registration: idOf(ord), Details: details, Arguments: wamp.List{int(inv)}}) {
					r.mu.Lock()
					r.invOnWire[inv] = true
					r.mu.Unlock()
				}
				r.invOnce[inv].Do(func() { close(r.invCh[inv]) }) // INTERRUPTs scripted relative to it follow it on the wire
			})
		case "rinvokeprog":
			ord := 0
			fmt.Sscan(op.Ref, &ord)
			inv := wamp.ID(op.N)
			chunks, gap := int(optInt(op, "chunks")), time.Duration(optInt(op, "gap"))
			r.afterReady(ord, at, func() {
				if !r.live(ord) {
					r.label("invocation_skipped_unregistered")
					return
				}
				r.label("chunked_invocation_sent")
				r.invOnce[inv].Do(func() { close(r.invCh[inv]) })
				r.mu.Lock()
				r.invSent[inv]++
				r.invKind[inv] = "chunked"
				r.mu.Unlock()
				for k := 1; k <= chunks; k++ {
					details := wamp.Dict{}
					if k < chunks {
						details["progress"] = true
					}
					if !r.routerSend(&wamp.Invocation{Request: inv, Registration: idOf(ord), Details: details, Arguments: wamp.List{int(inv), k}}) {
						return
					}
					r.mu.Lock()
					r.invChunksSent[inv] = k
					r.mu.Unlock()
					if gap > 0 && k < chunks {
						t := time.NewTimer(gap)
						select {
						case <-t.C:
						case <-r.routerDone:
							t.Stop()
							return
						}
					}
				}
			})
		case "rinterrupt":
			inv := wamp.ID(op.N)
			// relative to the (first) INVOCATION with that id; absolute when no such invocation is scripted
			start := r.later
			if ch := r.invCh[inv]; ch != nil {
				start = func(d time.Duration, f func()) {
					r.wg.Add(1)
					go func() {
						defer r.wg.Done()
						select {
						case <-ch:
							r.later(d, f)
						case <-r.routerDone:
						}
					}()
				}
			}
			start(at, func() {
				r.label("interrupt_sent")
				r.mu.Lock()
				r.interrupted[inv] = true
				if r.invOnWire[inv] && !r.handlerDone[inv] {
					// the INVOCATION is on its way or being handled: this INTERRUPT is for it
					r.interruptedWhileRunning[inv] = true
				}
				r.mu.Unlock()
				r.routerSend(&wamp.Interrupt{Request: inv, Options: wamp.Dict{"mode": "killnowait"}})
			})
		case "revent":
			ord := 0
			fmt.Sscan(op.Ref, &ord)
			n := op.N
			r.afterReady(ord, at, func() {
				if !r.live(ord) {
					r.label("event_skipped_unsubscribed")
					return
				}
				r.label("event_burst_sent")
				r.sendMu.Lock()
				defer r.sendMu.Unlock()
				for k := 0; k < n; k++ {
					r.mu.Lock()
					r.evSent[ord]++
					seq := r.evSent[ord]
					r.mu.Unlock()
					if !r.routerSendLocked(&wamp.Event{Subscription: idOf(ord), Publication: wamp.ID(seq), Details: wamp.Dict{"x_burst": true}, Arguments: wamp.List{ord, seq}}) {
						return
					}
				}
			})
		case "rraw":
			msg := buildRaw(op.Msg, nil)
			if msg != nil {
				r.later(at, func() { r.routerSend(msg) })
			}
		case "rjson":
			// a serialised message as it would come off a JSON transport (native fuzz target)
			var b []byte
			if len(op.Args) > 0 {
				b, _ = op.Args[0].Go().([]byte)
			}
			if msg, err := (&serialize.JSONSerializer{}).Deserialize(b); err == nil && msg != nil {
				r.later(at, func() { r.routerSend(msg) })
			}
		case "rgoodbye":
			r.later(at, func() {
				if r.routerSend(&wamp.Goodbye{Reason: wamp.ErrSystemShutdown, Details: wamp.Dict{}}) {
					r.mu.Lock()
					r.routerClosedClient = true
					r.mu.Unlock()
				}
			})
		case "rabort":
			r.later(at, func() {
				if r.routerSend(&wamp.Abort{Reason: wamp.ErrProtocolViolation, Details: wamp.Dict{}}) {
					r.mu.Lock()
					r.routerClosedClient = true
					r.mu.Unlock()
				}
			})
		case "rdrop":
			r.later(at, func() {
				r.mu.Lock()
				r.routerClosedClient = true
				r.mu.Unlock()
				r.closeRouterEnd()
			})
		}
	}

	// API goroutines
	byG := map[int][]*Op{}
	var gs []int
	for i := range c.Ops {
		op := &c.Ops[i]
		if op.S >= 0 {
			if _, ok := byG[op.S]; !ok {
				gs = append(gs, op.S)
			}
			byG[op.S] = append(byG[op.S], op)
		}
	}
	sort.Ints(gs)
	var api sync.WaitGroup
	apiDone := make(chan struct{})
	for _, g := range gs {
		ops := byG[g]
		api.Add(1)
		go func() {
			defer api.Done()
			for _, op := range ops {
				r.runAPI(op)
			}
		}()
	}
	go func() { api.Wait(); close(apiDone) }()

	// let virtual time pass: everything must finish
	// (an operation takes at most 9 response timeouts: the default deadline of a
	// call plus the wait for the answer to its CANCEL; a goroutine has at most 6)
	finished := false
	for i := 0; i < 100 && !finished; i++ {
		time.Sleep(rigRT)
		synctest.Wait()
		select {
		case <-apiDone:
			finished = true
		default:
		}
	}
	time.Sleep(20 * rigRT) // scripted router traffic goes on for up to 3 response timeouts after a Register returned
	synctest.Wait()
	select {
	case <-apiDone:
	default:
		var stuck []string
		r.mu.Lock()
		for ord, res := range r.results {
			if !res.returned {
				stuck = append(stuck, fmt.Sprintf("%s#%d (started at %v)", res.op.K, ord, res.start))
			}
		}
		r.mu.Unlock()
		sort.Strings(stuck)
		return fail("%v of virtual time after the start these client API calls have still not returned: %v\n%s", 120*rigRT, stuck, bubbleStacksFor("client"))
	}
	// benign probe after the burst (C17: "does not stop processing")
	r.mu.Lock()
	closedByRouter := r.routerClosedClient
	aborted := r.clientAborted
	r.mu.Unlock()
	closedByScript := false
	for _, op := range c.Ops {
		if op.K == "close" {
			closedByScript = true
		}
	}
	if !closedByRouter && !closedByScript && !aborted && r.cli.Connected() {
		probeOrd := 9000
		pop := &Op{K: "subscribe", N: probeOrd, Opts: []KV{{"reply", VStr("now")}}}
		r.ops[probeOrd] = pop
		done := make(chan error, 1)
		go func() { done <- r.cli.Subscribe(fmt.Sprintf("t.n%d", probeOrd), func(*wamp.Event) {}, nil) }()
		time.Sleep(3 * rigRT)
		synctest.Wait()
		select {
		case err := <-done:
			if err != nil {
				return fail("a benign Subscribe issued after the scripted traffic failed although the session is open and the router answered at once: %v", err)
			}
			if id, ok := r.cli.SubscriptionID(fmt.Sprintf("t.n%d", probeOrd)); !ok || id != idOf(probeOrd) {
				return fail("the probe Subscribe returned but recorded subscription id %d, the router's reply carried %d", id, idOf(probeOrd))
			}
			r.label("probe_answered")
		default:
			return fail("a benign Subscribe issued after the scripted traffic did not return: the client stopped processing messages\n%s", bubbleStacksFor("client"))
		}
	} else if closedByRouter {
		// Done must be signalled once GOODBYE/ABORT/EOF was delivered
		select {
		case <-r.cli.Done():
			r.label("done_after_router_close")
		default:
			return fail("the router said GOODBYE/ABORT or dropped the transport, but client.Done() is not closed")
		}
		if err := r.cli.Subscribe("t.n9001", func(*wamp.Event) {}, nil); err == nil {
			return fail("Subscribe succeeded after the session ended")
		}
	}
	// Close must return
	closeDone := make(chan struct{})
	go func() { _ = r.cli.Close(); close(closeDone) }()
	time.Sleep(5 * rigRT)
	synctest.Wait()
	select {
	case <-closeDone:
	default:
		return fail("client.Close() did not return\n%s", bubbleStacksFor("client"))
	}
	select {
	case <-r.cli.Done():
	default:
		return fail("client.Done() is not closed after Close()")
	}
	// release the router side
	r.closeRouterEnd()
	time.Sleep(time.Second)
	synctest.Wait()
	r.wg.Wait()
	<-r.routerDone
	r.mu.Lock()
	defer r.mu.Unlock()
	if r.viol != "" {
		return fail("%s", r.viol)
	}
	// ---- judge the API results ----
	if bad := r.judge(); bad != "" {
		return fail("%s", bad)
	}
	v.Stats.Labels = r.labels
	conc := 0
	for _, g := range gs {
		if len(byG[g]) > 0 {
			conc++
		}
	}
	switch prop {
	case "C16":
		v.Stats.NonTrivial = conc >= 3 && (r.timerCoincidence || r.reordered)
	default:
		hostileN := 0
		for _, op := range c.Ops {
			if op.N == 777 || op.K == "rjson" {
				hostileN++
			}
		}
		v.Stats.NonTrivial = hostileN > 0
	}
	if trace {
		v.Trace = r.trace
		v.Log = log.Tail()
	}
	return v
}

func bubbleStacksFor(pkg string) string {
	return bubbleStacks()
}

func (r *rig) markUndone(ref string) {
	ord := 0
	fmt.Sscan(ref, &ord)
	r.mu.Lock()
	r.undone[ord] = true
	r.mu.Unlock()
}

func (r *rig) record(op *Op) *apiResult {
	res := &apiResult{op: op, start: r.now()}
	r.mu.Lock()
	res.afterClose = r.closeReturned
	r.results[op.N] = res
	r.mu.Unlock()
	return res
}

func (r *rig) runAPI(op *Op) {
	switch op.K {
	case "sleep":
		time.Sleep(time.Duration(op.Ns))
		return
	case "close":
		time.Sleep(time.Duration(op.Ns))
		if err := r.cli.Close(); err == nil { // ErrAlreadyClosed: another Close() may still be at work
			r.mu.Lock()
			r.closeReturned = true
			r.mu.Unlock()
		}
		return
	}
	res := r.record(op)
	defer func() {
		r.mu.Lock()
		res.end = r.now()
		res.returned = true
		r.mu.Unlock()
		if ch := r.ready[op.N]; ch != nil && res.err == nil {
			close(ch)
		}
		r.tr("api %s#%d returned err=%v", op.K, op.N, res.err)
	}()
	r.tr("api %s#%d", op.K, op.N)
	switch op.K {
	case "subscribe":
		ord := op.N
		res.err = r.cli.Subscribe(fmt.Sprintf("t.n%d", ord), func(ev *wamp.Event) {
			r.mu.Lock()
			if r.evBusy {
				r.evReentered = true
			}
			r.evBusy = true
			seq := 0
			if _, burst := ev.Details["x_burst"]; burst && len(ev.Arguments) == 2 {
				// a burst event carries [ordinal, sequence] as integers; a hostile raw
				// EVENT that merely resembles one (other ordinal, float sequence) is not counted
				if o, ok := ev.Arguments[0].(int64); ok && int(o) == ord || ev.Arguments[0] == ord {
					switch n := ev.Arguments[1].(type) {
					case int:
						seq = n
					case int64:
						seq = int(n)
					case uint64:
						seq = int(n)
					}
				}
			}
			if seq > 0 && ev.Publication == wamp.ID(seq) { // hostile raw EVENTs carry no sequence number
				r.evSeq[ord] = append(r.evSeq[ord], seq)
			}
			r.mu.Unlock()
			for i := 0; i < 3; i++ {
				runtime.Gosched() // give a concurrent handler the chance to overlap
			}
			r.mu.Lock()
			r.evBusy = false
			r.mu.Unlock()
		}, nil)
	case "unsubscribe":
		r.markUndone(op.Ref)
		res.err = r.cli.Unsubscribe(fmt.Sprintf("t.n%s", op.Ref))
	case "register":
		ord := op.N
		kind := optStr(op, "handler", "fast")
		hs := time.Duration(optInt(op, "hsleep"))
		res.err = r.cli.Register(fmt.Sprintf("p.n%d", ord), func(ctx context.Context, inv *wamp.Invocation) client.InvokeResult {
			r.mu.Lock()
			r.handlerRuns[inv.Request]++
			r.running[inv.Request] = true
			r.mu.Unlock()
			defer func() {
				r.mu.Lock()
				r.running[inv.Request] = false
				r.handlerDone[inv.Request] = true
				r.mu.Unlock()
			}()
			switch kind {
			case "slow":
				t := time.NewTimer(hs)
				select {
				case <-t.C:
				case <-ctx.Done():
					t.Stop()
					r.mu.Lock()
					r.handlerCancelled[inv.Request] = true
					r.mu.Unlock()
					return client.InvocationCanceled
				}
			case "wait":
				t := time.NewTimer(10 * rigRT)
				select {
				case <-ctx.Done():
					t.Stop()
					r.mu.Lock()
					r.handlerCancelled[inv.Request] = true
					r.mu.Unlock()
					return client.InvocationCanceled
				case <-t.C:
				}
			case "chunked":
				k := 0
				if len(inv.Arguments) > 1 {
					n, _ := wamp.AsInt64(inv.Arguments[1])
					k = int(n)
				}
				r.mu.Lock()
				if r.chunkBusy[inv.Request] {
					r.chunkOverlap = true
				}
				r.chunkBusy[inv.Request] = true
				r.invChunks[inv.Request] = append(r.invChunks[inv.Request], k)
				r.mu.Unlock()
				for i := 0; i < 3; i++ {
					runtime.Gosched()
				}
				r.mu.Lock()
				r.chunkBusy[inv.Request] = false
				r.mu.Unlock()
				if more, _ := inv.Details["progress"].(bool); more {
					return client.InvokeResult{Err: wamp.InternalProgressiveOmitResult}
				}
				return client.InvokeResult{Args: wamp.List{int(inv.Request)}}
			case "ctxwait":
				// a handler that works until it is told to stop, as the handler
				// documentation allows
				<-ctx.Done()
				r.mu.Lock()
				r.handlerCancelled[inv.Request] = true
				r.mu.Unlock()
				return client.InvocationCanceled
			case "progress":
				for p := 1; p <= 3; p++ {
					if err := r.cli.SendProgress(ctx, wamp.List{p}, nil); err != nil {
						break
					}
				}
			case "error":
				return client.InvokeResult{Err: "verif.handler.error", Args: wamp.List{int(inv.Request)}}
			}
			return client.InvokeResult{Args: wamp.List{int(inv.Request)}}
		}, nil)
	case "unregister":
		r.markUndone(op.Ref)
		res.err = r.cli.Unregister(fmt.Sprintf("p.n%s", op.Ref))
	case "publish":
		res.err = r.cli.Publish(fmt.Sprintf("t.n%d", op.N), wamp.Dict{"acknowledge": true}, wamp.List{op.N}, nil)
	case "call", "callprog":
		ord := op.N
		ctx := context.Background()
		var cancel context.CancelFunc
		switch optStr(op, "ctx", "none") {
		case "timeout":
			ctx, cancel = context.WithTimeout(ctx, time.Duration(optInt(op, "ctxns")))
		case "cancel":
			ctx, cancel = context.WithCancel(ctx)
			d := time.Duration(optInt(op, "ctxns"))
			c2 := cancel
			r.later(d, func() { c2() })
		default:
			// a call without deadline still must end: the scripted "never" policy would block it forever
			ctx, cancel = context.WithTimeout(ctx, 8*rigRT)
		}
		defer cancel()
		var progcb client.ProgressHandler
		returned := false
		if optInt(op, "progress") > 0 {
			progcb = func(res *wamp.Result) {
				r.mu.Lock()
				defer r.mu.Unlock()
				if returned {
					r.progAfterReturn[ord] = true
				}
				p := 0
				if len(res.Arguments) >= 2 {
					n, _ := wamp.AsInt64(res.Arguments[1])
					p = int(n)
				}
				r.progSeen[ord] = append(r.progSeen[ord], p)
			}
		}
		if op.K == "callprog" {
			n, gap, unset := int(optInt(op, "chunks")), time.Duration(optInt(op, "gap")), optStr(op, "finalunset", "false") == "true"
			k := 0
			feed := func(ctx context.Context) (wamp.Dict, wamp.List, wamp.Dict, error) {
				k++
				if k > 1 && gap > 0 {
					time.Sleep(gap)
				}
				var o wamp.Dict
				switch {
				case k < n:
					o = wamp.Dict{"progress": true}
				case !unset:
					o = wamp.Dict{"progress": false}
				}
				return o, wamp.List{ord, k}, nil, nil
			}
			res.result, res.err = r.cli.CallProgressive(ctx, fmt.Sprintf("p.call.n%d", ord), feed, progcb)
		} else {
			var callOpts wamp.Dict
			switch optStr(op, "ppt", "") {
			case "x":
				callOpts = wamp.Dict{"ppt_scheme": "x_verif", "ppt_serializer": "json"}
			case "mqtt":
				callOpts = wamp.Dict{"ppt_scheme": "mqtt", "ppt_serializer": "cbor"}
			case "badscheme":
				callOpts = wamp.Dict{"ppt_scheme": "bogus", "ppt_serializer": "json"}
			case "badserializer":
				callOpts = wamp.Dict{"ppt_scheme": "x_verif", "ppt_serializer": "nope"}
			}
			res.result, res.err = r.cli.Call(ctx, fmt.Sprintf("p.call.n%d", ord), callOpts, wamp.List{ord}, nil, progcb)
		}
		r.mu.Lock()
		returned = true
		r.mu.Unlock()
	}
}

// judge compares what every API call returned with what the scripted router did for it.
func (r *rig) judge() string {
	ords := make([]int, 0, len(r.results))
	for o := range r.results {
		ords = append(ords, o)
	}
	sort.Ints(ords)
	// in hostile mode the router may have ended the session at any time, and
	// hostile replies may carry any request id: only internal consistency is judged
	strict := !r.hostile
	for _, ord := range ords {
		if res := r.results[ord]; res.afterClose && res.err == nil {
			return fmt.Sprintf("%s#%d was issued after Close() had returned and reported success", res.op.K, ord)
		}
		if r.hostile {
			// hostile raw replies may carry any request id, token or progress
			// flag: what a call returned proves nothing about correlation (C16
			// owns that). What remains: nothing reaches a progress handler
			// after its Call returned.
			if r.progAfterReturn[ord] {
				return fmt.Sprintf("Call#%d: the progress handler was invoked after Call had returned", ord)
			}
			continue
		}
		res := r.results[ord]
		op := res.op
		pol := optStr(op, "reply", "now")
		delay := time.Duration(optInt(op, "delay"))
		dur := res.end - res.start
		connErr := errors.Is(res.err, client.ErrNotConn)
		if connErr && !strict {
			continue
		}
		switch op.K {
		case "subscribe", "register", "publish", "unsubscribe", "unregister":
			if errors.Is(res.err, client.ErrNotSubscribed) || errors.Is(res.err, client.ErrNotRegistered) {
				continue // nothing was sent: the referenced subscribe/register had not succeeded
			}
			late := pol == "never" || (pol == "delay" && delay > rigRT)
			exactlyAt := pol == "delay" && delay == rigRT
			switch {
			case late:
				if !errors.Is(res.err, client.ErrReplyTimeout) {
					if strict {
						return fmt.Sprintf("%s#%d: the reply came late or never, the call returned %v instead of ErrReplyTimeout", op.K, ord, res.err)
					}
				} else if dur != rigRT {
					return fmt.Sprintf("%s#%d returned ErrReplyTimeout after %v, the response timeout is %v", op.K, ord, dur, rigRT)
				}
				r.labels["api_timeout"]++
			case exactlyAt:
				// reply and timer coincide: either outcome, but at that instant
				if res.err != nil && !errors.Is(res.err, client.ErrReplyTimeout) && strict {
					return fmt.Sprintf("%s#%d (reply exactly at the timeout) returned %v", op.K, ord, res.err)
				}
				if dur != rigRT && strict {
					return fmt.Sprintf("%s#%d (reply exactly at the timeout) returned after %v", op.K, ord, dur)
				}
				r.labels["api_reply_at_timeout"]++
			case pol == "error":
				if res.err == nil && strict {
					return fmt.Sprintf("%s#%d: the router answered with ERROR, the call returned success", op.K, ord)
				}
				if res.err != nil && strict && !strings.Contains(res.err.Error(), "verif.error") {
					return fmt.Sprintf("%s#%d: the router answered ERROR verif.error, the call returned %v", op.K, ord, res.err)
				}
			default:
				if res.err != nil && strict {
					return fmt.Sprintf("%s#%d: the router replied in time (policy %s), the call returned %v", op.K, ord, pol, res.err)
				}
				if res.err == nil {
					want := time.Duration(0)
					if pol == "delay" {
						want = delay
					}
					if dur != want && strict {
						return fmt.Sprintf("%s#%d returned after %v, its reply was sent after %v", op.K, ord, dur, want)
					}
					switch op.K {
					case "subscribe":
						if id, ok := r.cli.SubscriptionID(fmt.Sprintf("t.n%d", ord)); ok && id != idOf(ord) {
							return fmt.Sprintf("Subscribe#%d recorded subscription id %d, its own SUBSCRIBED carried %d", ord, id, idOf(ord))
						}
					case "register":
						if id, ok := r.cli.RegistrationID(fmt.Sprintf("p.n%d", ord)); ok && id != idOf(ord) {
							return fmt.Sprintf("Register#%d recorded registration id %d, its own REGISTERED carried %d", ord, id, idOf(ord))
						}
					}
				}
			}
		case "call", "callprog":
			ctxKind := optStr(op, "ctx", "none")
			ctxNs := time.Duration(optInt(op, "ctxns"))
			if ctxKind == "none" {
				ctxKind, ctxNs = "timeout", 8*rigRT
			}
			replyAt := time.Duration(-1) // when the final reply was sent
			switch pol {
			case "now", "dup", "foreign", "error":
				replyAt = 0
			case "delay":
				replyAt = delay
			}
			if op.K == "callprog" {
				// answered once the final chunk has arrived
				n := int(optInt(op, "chunks"))
				if replyAt >= 0 {
					replyAt += time.Duration(n-1) * time.Duration(optInt(op, "gap"))
				}
				r.labels["progressive_call"]++
				if strict && res.err == nil {
					want := make([]int, n)
					for i := range want {
						want[i] = i + 1
					}
					if fmt.Sprint(r.callChunks[ord]) != fmt.Sprint(want) {
						return fmt.Sprintf("CallProgressive#%d fed %d chunks, the router received chunks %v", ord, n, r.callChunks[ord])
					}
				}
			}
			req := r.callReq[ord]
			ncancel := len(r.cancels[req])
			cancelled := replyAt < 0 || ctxNs < replyAt
			coincide := replyAt >= 0 && ctxNs == replyAt
			if res.result != nil {
				// own token
				tok := 0
				if len(res.result.Arguments) > 0 {
					n, _ := wamp.AsInt64(res.result.Arguments[0])
					tok = int(n)
				}
				if tok != ord {
					return fmt.Sprintf("Call#%d returned the RESULT of call #%d", ord, tok)
				}
				if p, _ := res.result.Details["progress"].(bool); p {
					return fmt.Sprintf("Call#%d returned a progressive RESULT as its final result", ord)
				}
			}
			var rpcErr client.RPCError
			if errors.As(res.err, &rpcErr) && rpcErr.Err != nil && rpcErr.Err.Error == "verif.error" {
				tok := 0
				if len(rpcErr.Err.Arguments) > 0 {
					n, _ := wamp.AsInt64(rpcErr.Err.Arguments[0])
					tok = int(n)
				}
				if tok != ord {
					return fmt.Sprintf("Call#%d returned the ERROR of call #%d", ord, tok)
				}
			}
			if r.progAfterReturn[ord] {
				return fmt.Sprintf("Call#%d: the progress handler was invoked after Call had returned", ord)
			}
			last := 0
			for _, p := range r.progSeen[ord] {
				if p <= last {
					return fmt.Sprintf("Call#%d: progressive results reached the handler out of order: %v", ord, r.progSeen[ord])
				}
				last = p
			}
			if !strict {
				continue
			}
			switch {
			case coincide:
				r.labels["call_reply_at_deadline"]++
				if ncancel > 1 {
					return fmt.Sprintf("Call#%d sent %d CANCEL messages", ord, ncancel)
				}
			case cancelled:
				r.labels["call_cancelled"]++
				if ncancel != 1 {
					return fmt.Sprintf("Call#%d: its context ended at %v before any final reply, but %d CANCEL messages reached the router (expected exactly one)", ord, ctxNs, ncancel)
				}
				wantMode := r.c.P["cancelmode"].S
				if wantMode == "" {
					wantMode = "killnowait"
				}
				if got := r.cancels[req][0]; got != wantMode {
					return fmt.Sprintf("Call#%d sent CANCEL with mode %q, the configured cancel mode is %q", ord, got, wantMode)
				}
				ctxErr := context.DeadlineExceeded
				if optStr(op, "ctx", "none") == "cancel" {
					ctxErr = context.Canceled
				}
				cr := optStr(op, "cancelreply", "error")
				if cr == "none" || cr == "stream" {
					// the wait for the answer to CANCEL is bounded by the response timeout, whatever
					// else arrives for the request meanwhile
					if d := res.end - res.start; d > ctxNs+rigRT {
						return fmt.Sprintf("Call#%d: cancelled at %v, CANCEL unanswered: returned only after %v, later than one response timeout (%v) after the cancellation", ord, ctxNs, d, rigRT)
					}
				}
				if cr == "none" || cr == "stream" {
					if !errors.Is(res.err, ctxErr) && !errors.Is(res.err, client.ErrReplyTimeout) {
						return fmt.Sprintf("Call#%d: cancelled, CANCEL unanswered: returned %v (expected the context's error or ErrReplyTimeout)", ord, res.err)
					}
				} else if !errors.Is(res.err, ctxErr) {
					return fmt.Sprintf("Call#%d: its context ended (%v) and the router answered the CANCEL, but Call returned %v instead of the context's error", ord, ctxErr, res.err)
				}
				if res.end-res.start < ctxNs {
					return fmt.Sprintf("Call#%d returned after %v, before its context ended (%v)", ord, res.end-res.start, ctxNs)
				}
			default:
				// final reply before the context ended
				if ncancel != 0 {
					return fmt.Sprintf("Call#%d got its final reply at %v, before its context ended (%v), but sent CANCEL", ord, replyAt, ctxNs)
				}
				if pol == "error" {
					if !errors.As(res.err, &rpcErr) {
						return fmt.Sprintf("Call#%d: the router answered ERROR, Call returned result=%v err=%v", ord, res.result != nil, res.err)
					}
				} else if res.err != nil || res.result == nil {
					return fmt.Sprintf("Call#%d: the router sent the final RESULT at %v, Call returned err=%v", ord, replyAt, res.err)
				}
				if res.end-res.start != replyAt {
					return fmt.Sprintf("Call#%d returned after %v, its final reply was sent at %v", ord, res.end-res.start, replyAt)
				}
				np := int(optInt(op, "progress"))
				if len(r.progSeen[ord]) != np {
					return fmt.Sprintf("Call#%d: %d progressive results were sent before the final reply, the handler saw %v", ord, np, r.progSeen[ord])
				}
			}
		}
	}
	// reordering: two replies delivered in an order different from the request order
	// invocations
	for inv, sent := range r.invSent {
		if sent == 0 || r.hostile {
			// hostile INVOCATIONs move the client's last-seen id anywhere: which
			// scripted ids count as new is not determined
			continue
		}
		runs := r.handlerRuns[inv]
		if r.invKind[inv] == "chunked" {
			// progressive call invocation: every chunk goes to the handler, in order, one at a time
			r.labels["chunked_invocation"]++
			last := 0
			for _, k := range r.invChunks[inv] {
				if k != last+1 {
					return fmt.Sprintf("the chunks of invocation %d reached the handler as %v", inv, r.invChunks[inv])
				}
				last = k
			}
			if r.invAnswers[inv] > 1 {
				return fmt.Sprintf("%d final YIELD/ERROR messages for the chunked invocation %d", r.invAnswers[inv], inv)
			}
			if !r.interrupted[inv] && len(r.invChunks[inv]) == r.invChunksSent[inv] && r.invChunksSent[inv] > 0 && r.invAnswers[inv] != 1 {
				// all chunks handled (the registration may have been removed meanwhile, then fewer were)
				if final := r.invChunksSent[inv]; len(r.invChunks[inv]) == final {
					r.labels["chunked_invocation_complete"]++
				}
			}
			continue
		}
		if runs == 1 {
			r.labels["handler_ran"]++
		}
		if sent > 1 {
			r.labels["duplicate_invocation_id"]++
		}
		if r.handlerCancelled[inv] {
			r.labels["handler_saw_cancel"]++
		}
		if runs > 1 {
			return fmt.Sprintf("the invocation handler ran %d times for invocation id %d", runs, inv)
		}
		if r.invAnswers[inv] > 1 {
			return fmt.Sprintf("%d YIELD/ERROR messages with invocation id %d reached the router", r.invAnswers[inv], inv)
		}
		if strict && runs == 1 && r.invAnswers[inv] != 1 {
			return fmt.Sprintf("the handler ran for invocation %d but %d final answers reached the router", inv, r.invAnswers[inv])
		}
		// the "wait" handler blocks on its context for 10 response timeouts: an
		// INTERRUPT sent while it runs, or the invocation's own timeout, must reach it
		if r.invKind[inv] == "wait" && runs == 1 && sent == 1 {
			if r.interruptedWhileRunning[inv] {
				r.labels["interrupt_while_running"]++
				if !r.handlerCancelled[inv] {
					return fmt.Sprintf("INTERRUPT for invocation %d was sent after the INVOCATION and before its handler finished, the handler's context was never cancelled", inv)
				}
			}
			if r.invTimeout[inv] {
				r.labels["invocation_timeout"]++
				if !r.handlerCancelled[inv] {
					return fmt.Sprintf("invocation %d carried a timeout, the handler's context never expired", inv)
				}
			}
		}
	}
	for inv, n := range r.invAnswers {
		if r.invSent[inv] == 0 && n > 0 && strict {
			return fmt.Sprintf("the client answered invocation id %d which the router never sent", inv)
		}
	}
	if r.chunkOverlap {
		return "the handler was entered for a chunk of an invocation while it was still running for an earlier chunk of the same invocation"
	}
	if r.evReentered {
		return "an event handler was entered while another event handler was still running"
	}
	for ord, seqs := range r.evSeq {
		last := 0
		for _, s := range seqs {
			if s <= last {
				return fmt.Sprintf("events of subscription #%d reached the handler out of arrival order: %v", ord, seqs)
			}
			last = s
		}
	}
	return ""
}
