package harness

// C12 — identity is disclosed only when allowed; recipients get independent
// messages that never change after delivery.

import (
	"fmt"
	"sort"
	"strings"

	"github.com/gammazero/nexus/v3/wamp"
	"pgregory.net/rapid"
)

func init() {
	register(&Property{
		ID: "C12",
		Rule: "rapid-generated mixed histories on realms with disclosure allowed/forbidden, publishers/callers trusted or not (RequireLocalAuth + static authenticator), disclose_me on/off, registrations with disclose_caller, recipients with and without " +
			"publisher_identification / caller_identification, local and serialised, exact and pattern subscriptions on the same topic, websocket sessions attached with transport.auth data; oracle: (1) exact per-recipient EVENT details computed from the recipient and its own subscription only, " +
			"identity keys in EVENT/INVOCATION only when requested and allowed, refusal of disallowed disclose_me; (2) immutability: every delivered message is snapshotted, in-process recipients' copies are then mutated (top-level details/args/kwargs), and all other recipients' messages " +
			"and all earlier deliveries must still equal their snapshots at every later step; (3) session meta answers and on_join events never carry transport.auth. Non-trivial = one publication reaching >=2 recipients that differ in feature set, transport or subscription policy; distinct = case hash",
		Gen:       genC12,
		NewOracle: c12Oracle,
		Assumptions: []string{
			"immutability is probed with top-level mutations only; nexus copies one level (documented in broker.prepareEvent), nested payload sharing between in-process recipients is a grey zone",
			"trusted requester asking disclose_me on a realm that forbids disclosure: refusal or disclosure both accepted",
			"a -race shard runs the same cases to turn unsynchronised sharing with a remote peer's serializer into a crash verdict",
		},
	})
}

type snap struct {
	step int
	sess int
	msg  wamp.Message
	str  string
}

func c12Oracle(c *Case) Oracle {
	var b *brokerPart
	var d *dealerPart
	var snaps []snap
	o := newComposite(c, "C12", func(w *World) []Part {
		b = newBrokerPart(w)
		d = newDealerPart(w)
		m := newMetaPart(w, b, d)
		b.metaAsserted = true
		b.checkDetails = func(pub, rcv int, sub *mSub, pm *wamp.Publish, ev *wamp.Event) string {
			rs, ps := w.sess[rcv], w.sess[pub]
			rc := w.realm(pub)
			want := map[string]bool{}
			if sub.class != "exact" {
				want["topic"] = true
			}
			dm, _ := pm.Options["disclose_me"].(bool)
			if dm && (rc.AllowDisclose || ps.trusted()) && rs.has("subscriber", "publisher_identification") {
				want["publisher"], want["publisher_authid"], want["publisher_authrole"] = true, true, true
			}
			for k := range ev.Details {
				if !want[k] {
					return fmt.Sprintf("EVENT to session %d (subscription %d, %s) carries details.%s=%v which neither this recipient nor its subscription justifies", rcv, sub.id, sub.class, k, ev.Details[k])
				}
			}
			if want["publisher"] {
				w.st.Label("identity_disclosed_in_event")
				if id, ok := wamp.AsID(ev.Details["publisher"]); ok && id != ps.sid {
					return fmt.Sprintf("EVENT discloses publisher=%d but the publisher's session id is %d", id, ps.sid)
				}
			} else if dm {
				w.st.Label("identity_withheld_in_event")
			}
			return ""
		}
		return []Part{b, d, m}
	})
	o.afterStep = func(e *Engine, st *StepRec) *Violation {
		w := o.w
		if st.Phase == "drop" || st.Phase == "close" {
			return nil
		}
		// (a) earlier deliveries must not have changed
		for _, s := range snaps {
			if now := MsgString(s.msg); now != s.str {
				return &Violation{Prop: "C12", Step: st.N, Reason: fmt.Sprintf("a message delivered to session %d in step %d changed after delivery:\n  was: %s\n  now: %s", s.sess, s.step, s.str, now)}
			}
		}
		// (b) snapshot this step's deliveries, mutate in-process copies, compare the others
		var cur []snap
		keys := make([]int, 0, len(st.Recv))
		for k := range st.Recv {
			keys = append(keys, k)
		}
		sort.Ints(keys)
		recipients := map[wamp.ID][]int{}
		for _, k := range keys {
			for _, m := range st.Recv[k] {
				switch x := m.(type) {
				case *wamp.Event:
					cur = append(cur, snap{st.N, k, m, MsgString(m)})
					recipients[x.Publication] = append(recipients[x.Publication], k)
				case *wamp.Invocation, *wamp.Result:
					cur = append(cur, snap{st.N, k, m, MsgString(m)})
				}
			}
		}
		for pid, rs := range recipients {
			_ = pid
			if len(rs) >= 2 {
				differ := false
				for _, r := range rs[1:] {
					a, bb := w.sess[rs[0]], w.sess[r]
					if a.local != bb.local || a.has("subscriber", "publisher_identification") != bb.has("subscriber", "publisher_identification") || r == rs[0] {
						differ = true
					}
				}
				if differ {
					w.st.NonTrivial = true
					w.st.Label("multi_recipient_publication_differing")
				}
			}
		}
		mutated := map[int]bool{}
		// one in-process recipient per publication rewrites its copy; every other
		// recipient of that publication - in-process ones on other subscriptions
		// included - must keep what it was handed
		rewrotePub := map[wamp.ID]bool{}
		for i, s := range cur {
			if !w.sess[s.sess].local {
				continue
			}
			switch x := s.msg.(type) {
			case *wamp.Event:
				if rewrotePub[x.Publication] {
					continue
				}
				rewrotePub[x.Publication] = true
				if x.Details != nil {
					x.Details["verif_mutation"] = s.sess
				}
				if len(x.Arguments) > 0 {
					x.Arguments[0] = "mutated"
				}
				if x.ArgumentsKw != nil {
					x.ArgumentsKw["verif_mutation"] = true
				}
				mutated[i] = true
			case *wamp.Invocation:
				if x.Details != nil {
					x.Details["verif_mutation"] = s.sess
				}
				if len(x.Arguments) > 0 {
					x.Arguments[0] = "mutated"
				}
				if x.ArgumentsKw != nil {
					x.ArgumentsKw["verif_mutation"] = true
				}
				mutated[i] = true
			}
		}
		for i, s := range cur {
			if mutated[i] {
				w.st.Label("local_copy_mutated")
				cur[i].str = MsgString(s.msg)
				continue
			}
			if now := MsgString(s.msg); now != s.str {
				return &Violation{Prop: "C12", Step: st.N, Reason: fmt.Sprintf("mutating an in-process recipient's copy changed the message delivered to session %d:\n  was: %s\n  now: %s", s.sess, s.str, now)}
			}
		}
		snaps = append(snaps, cur...)
		if len(snaps) > 400 {
			snaps = snaps[len(snaps)-400:]
		}
		return nil
	}
	return o
}

var c12Users = []UserCfg{{AuthID: "u1", Role: "r1"}, {AuthID: "u2", Role: "r2"}}

func genC12(t *rapid.T) *Case {
	rla := rapid.Bool().Draw(t, "requireLocalAuth")
	c := &Case{Realms: []RealmCfg{{URI: "r1", Anonymous: true, AllowDisclose: rapid.Bool().Draw(t, "allowDisclose"), RequireLocalAuth: rla,
		Auths: []string{"static"}, Users: c12Users, MetaStrict: pct(t, 30, "metastrict")}}}
	n := 3 + uni(t, 3, "nsess")
	for i := 0; i < n; i++ {
		s := SessCfg{Realm: "r1"}
		if pct(t, 40, "fullroles") {
			s.Roles = fullRoles()
		} else {
			s.Roles = genRoles(t)
		}
		if pct(t, 40, "remote") {
			s.Transport = pick(t, remoteTransports, "tr")
			if strings.HasPrefix(s.Transport, "ws-") {
				s.TransportAuth = pct(t, 70, "tauth")
			}
		}
		if rla || s.Transport != "" {
			if s.Transport == "" || pct(t, 60, "static") {
				s.AuthMeth = []string{"static"}
				s.Hello = append(s.Hello, KV{"authid", VStr(pick(t, []string{"u1", "u2"}, "authid"))})
			}
		} else if pct(t, 50, "authid") {
			s.Hello = append(s.Hello, KV{"authid", VStr(pick(t, []string{"u1", "u2"}, "authid"))})
		}
		c.Sess = append(c.Sess, s)
	}
	// an observer of session meta events and a meta query or two
	if pct(t, 50, "observer") {
		c.Ops = append(c.Ops, Op{K: "subscribe", S: 0, URI: "wamp.session.on_join"})
		c.Sess[n-1].NoJoin = true
	}
	topic := genTopic(t)
	pats := []Op{{K: "subscribe", URI: topic}, {K: "subscribe", URI: "", Mode: "prefix"}, {K: "subscribe", URI: topic, Mode: "wildcard"}, {K: "subscribe", URI: topic, Mode: "prefix"}}
	nsub := 2 + uni(t, 5, "nsubs")
	for i := 0; i < nsub; i++ {
		op := pick(t, pats, "pat")
		op.S = uni(t, n, "subsess")
		c.Ops = append(c.Ops, op)
	}
	proc := genTopic(t)
	for i := 0; i < 1+uni(t, 2, "nregs"); i++ {
		op := Op{K: "register", S: uni(t, n, "regsess"), URI: proc, Opts: []KV{{"invoke", VStr("roundrobin")}}}
		if pct(t, 50, "dc") {
			op.Opts = append(op.Opts, KV{"disclose_caller", VBool(true)})
		}
		c.Ops = append(c.Ops, op)
	}
	ops := rapid.SliceOfN(rapid.Custom(func(t *rapid.T) Op {
		s := uni(t, n, "s")
		switch k := uni(t, 100, "k"); {
		case k < 50:
			op := Op{K: "publish", S: s, URI: topic, Args: genArgs(t, valOpts{}), Kw: genKw(t, valOpts{})}
			if pct(t, 15, "othertopic") {
				op.URI = genTopic(t)
			}
			if pct(t, 70, "dm") {
				op.Opts = append(op.Opts, KV{"disclose_me", VBool(true)})
			}
			if pct(t, 80, "ack") {
				op.Opts = append(op.Opts, KV{"acknowledge", VBool(true)})
			}
			if pct(t, 40, "exclme") {
				op.Opts = append(op.Opts, KV{"exclude_me", VBool(false)})
			}
			if pct(t, 30, "filtered") {
				// receiver restrictions on top of the disclosure
				for _, kv := range genPublishOpts(t, n) {
					if _, dup := optGet(op.Opts, kv.K); !dup && kv.K != "acknowledge" && kv.K != "exclude_me" {
						op.Opts = append(op.Opts, kv)
					}
				}
			}
			return op
		case k < 72:
			op := Op{K: "call", S: s, URI: proc, Args: genArgs(t, valOpts{}), Kw: genKw(t, valOpts{})}
			if pct(t, 60, "dm") {
				op.Opts = append(op.Opts, KV{"disclose_me", VBool(true)})
			}
			return op
		case k < 82:
			return Op{K: "yield", S: s, Ref: fmt.Sprintf("inv:-1:%d", uni(t, 4, "n")), Args: genArgs(t, valOpts{})}
		case k < 88:
			return Op{K: "meta", S: s, URI: "wamp.session.get", Args: []V{VRef(fmt.Sprintf("sid:%d", uni(t, n, "target")))}}
		case k < 92:
			return Op{K: "join", S: n - 1}
		case k < 96:
			op := pick(t, pats, "pat")
			op.S = s
			return op
		default:
			return Op{K: "unsubscribe", S: s, Ref: fmt.Sprintf("sub:-1:%d", uni(t, 3, "n"))}
		}
	}), minHistory(t, 25), 25).Draw(t, "ops")
	c.Ops = append(c.Ops, ops...)
	return c
}
