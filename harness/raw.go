package harness

import (
	"reflect"

	"github.com/gammazero/nexus/v3/wamp"
)

// buildRaw constructs an arbitrary WAMP message struct from tagged field values
// (in wire order). Values that cannot be stored in the Go field type (e.g. a
// string for an ID) are skipped: over an in-process peer the Go type system
// already excludes them; over a serialised transport the byte-level
// generators cover them.
func buildRaw(r *RawMsg, res func(string) any) wamp.Message {
	if r == nil {
		return nil
	}
	m := wamp.NewMessage(wamp.MessageType(r.Type))
	if m == nil {
		return nil
	}
	val := reflect.ValueOf(m).Elem()
	for i := 0; i < val.NumField() && i < len(r.Fields); i++ {
		f := val.Field(i)
		g := r.Fields[i].GoR(res)
		if g == nil {
			continue
		}
		a := reflect.ValueOf(g)
		switch {
		case a.Type().AssignableTo(f.Type()):
			f.Set(a)
		case a.Type().ConvertibleTo(f.Type()) && (a.Kind() == f.Kind() || (isIntKind(a.Kind()) && isIntKind(f.Kind()))):
			f.Set(a.Convert(f.Type()))
		}
	}
	return m
}

func isIntKind(k reflect.Kind) bool {
	switch k {
	case reflect.Int, reflect.Int8, reflect.Int16, reflect.Int32, reflect.Int64,
		reflect.Uint, reflect.Uint8, reflect.Uint16, reflect.Uint32, reflect.Uint64:
		return true
	}
	return false
}
