package harness

// C14 — serializers round-trip every message and agree with each other.
// Pure: no router, no bubble. Oracles: round-trip, cross-format differential,
// wire shape, idempotence; for byte inputs: never panic, error xor message,
// kind-incompatible fields rejected.

import (
	"fmt"
	"math"
	"reflect"

	"github.com/gammazero/nexus/v3/transport/serialize"
	"github.com/gammazero/nexus/v3/wamp"
	"pgregory.net/rapid"
)

var serNames = []string{"json", "msgpack", "cbor"}

func init() {
	register(&Property{
		ID: "C14",
		Rule: "(a) rapid-generated messages of all 24 types with every field filled from the WAMP value generator (ids up to 2^53, boundary integers, floats, Unicode/NUL strings, nested lists and dicts to depth 3, empty containers, " +
			"binary only for MessagePack/CBOR), all four trailing-payload shapes: round-trip per format, pairwise cross-format equality, wire shape (trailing empty payload omitted, kwargs-only keeps a placeholder), idempotence of serialise(deserialise(serialise(m))); " +
			"(b) byte inputs: random bytes, valid encodings with one structural mutation (top level not a list, unknown/ill-typed code, one field replaced by a value of an incompatible kind, truncation, trailing garbage): never a panic, " +
			"error xor a non-nil message of a known type that re-serialises, and an error whenever the mutation makes the input invalid by the statement. Non-trivial = payload depth >= 2 with a boundary integer / non-ASCII string / empty container, or a byte input that decodes to a list with a known code; distinct = case hash",
		Gen:  genC14,
		Pure: runC14,
		Assumptions: []string{
			"an integer where a string/URI field is expected is a grey zone (Go converts int to string): accepted either way; float for an id likewise",
			"JSON is judged on payloads without binary and with finite floats, as the statement restricts",
			"nil and empty are identified for the two trailing omitempty fields and for top-level option/detail dicts",
		},
	})
}

// fieldKinds returns the Go kinds of the struct fields of a message type.
func msgFieldTypes(typ int) []reflect.Type {
	m := wamp.NewMessage(wamp.MessageType(typ))
	if m == nil {
		return nil
	}
	v := reflect.ValueOf(m).Elem()
	var out []reflect.Type
	for i := 0; i < v.NumField(); i++ {
		out = append(out, v.Field(i).Type())
	}
	return out
}

var (
	tID   = reflect.TypeOf(wamp.ID(0))
	tURI  = reflect.TypeOf(wamp.URI(""))
	tDict = reflect.TypeOf(wamp.Dict{})
	tList = reflect.TypeOf(wamp.List{})
	tStr  = reflect.TypeOf("")
	tMT   = reflect.TypeOf(wamp.MessageType(0))
)

func genWellTypedMsg(t *rapid.T, bin bool) *RawMsg {
	typ := pick(t, msgTypes, "mtype")
	vo := valOpts{bin: bin}
	var f []V
	fts := msgFieldTypes(typ)
	shape := uni(t, 4, "payloadshape") // none / args / kw only / both
	for i, ft := range fts {
		switch ft {
		case tID:
			f = append(f, VID(pick(t, []uint64{1, 2, 255, 256, 65536, 1 << 32, 1<<53 - 1, 1 << 53, uint64(1 + uni(t, 1000, "idn"))}, "id")))
		case tURI:
			f = append(f, VURI(pick(t, []string{"a.b", "wamp.error.canceled", "", "é.ü", "a", "com.example.very.long.uri.with.many.components"}, "uri")))
		case tStr:
			f = append(f, VStr(pick(t, sampleStrings, "str")))
		case tMT:
			f = append(f, VI64(int64(pick(t, msgTypes, "etype"))))
		case tDict:
			isKw := i == len(fts)-1 && len(fts) >= 2 && fts[i-1] == tList
			if isKw {
				if shape == 2 || shape == 3 {
					kv := genKVs(t, 3, vo, 3)
					if len(kv) == 0 {
						kv = []KV{{"k", VI64(1)}}
					}
					f = append(f, V{T: "dict", K: kv})
				} else if pct(t, 50, "emptykw") {
					f = append(f, VDict())
				} else {
					f = append(f, VNil())
				}
			} else {
				f = append(f, V{T: "dict", K: genKVs(t, 2, vo, 3)})
			}
		case tList:
			if shape == 1 || shape == 3 {
				l := genArgs(t, vo)
				if len(l) == 0 {
					l = []V{genValue(t, 3, vo)}
				}
				f = append(f, VList(l...))
			} else if pct(t, 50, "emptyargs") {
				f = append(f, VList())
			} else {
				f = append(f, VNil())
			}
		default:
			f = append(f, VNil())
		}
	}
	return &RawMsg{Type: typ, Fields: f}
}

func genC14(t *rapid.T) *Case {
	c := &Case{P: map[string]V{}}
	switch k := uni(t, 100, "kind"); {
	case k < 55:
		bin := pct(t, 30, "bin")
		c.P["kind"] = VStr("msg")
		c.P["bin"] = VBool(bin)
		c.Ops = []Op{{K: "raw", Msg: genWellTypedMsg(t, bin)}}
	case k < 70:
		c.P["kind"] = VStr("bytes")
		c.P["ser"] = VStr(pick(t, serNames, "ser"))
		c.P["b"] = VBin(rapid.SliceOfN(rapid.Byte(), 0, 48).Draw(t, "bytes"))
	default:
		// structural mutation of a valid encoding
		c.P["kind"] = VStr("mutant")
		c.P["ser"] = VStr(pick(t, serNames, "ser"))
		c.Ops = []Op{{K: "raw", Msg: genWellTypedMsg(t, false)}}
		c.P["mut"] = VStr(pick(t, []string{"toplevel", "code_unknown", "code_type", "field_kind", "truncate", "garbage", "empty_list", "extra_fields", "short"}, "mut"))
		c.P["fi"] = VInt(uni(t, 6, "fieldidx"))
		c.P["repl"] = pick(t, []V{VStr("x"), VI64(7), VList(VI64(1)), VDict(KV{"a", VI64(1)}), VBool(true), VF64(1.5), VNil()}, "repl")
		c.P["cut"] = VInt(uni(t, 64, "cut"))
	}
	return c
}

func c14Fail(format string, a ...any) Verdict {
	return Verdict{Kind: "violation", Prop: "C14", Reason: fmt.Sprintf(format, a...)}
}

// msgEqual compares two messages field-wise on canonical forms.
func msgEqual(a, b wamp.Message) string {
	if a == nil || b == nil {
		return fmt.Sprintf("nil message (%v, %v)", a == nil, b == nil)
	}
	if a.MessageType() != b.MessageType() {
		return fmt.Sprintf("type %v vs %v", a.MessageType(), b.MessageType())
	}
	va, vb := reflect.ValueOf(a).Elem(), reflect.ValueOf(b).Elem()
	for i := 0; i < va.NumField(); i++ {
		fa, fb := va.Field(i).Interface(), vb.Field(i).Interface()
		if !PayloadEq(fa, fb) {
			return fmt.Sprintf("field %s: %s vs %s", va.Type().Field(i).Name, Show(Canon(fa)), Show(Canon(fb)))
		}
	}
	return ""
}

func payloadInteresting(v any, depth int) (maxDepth int, boundary bool) {
	switch x := v.(type) {
	case wamp.Dict:
		if len(x) == 0 {
			boundary = true
		}
		for _, e := range x {
			d, b := payloadInteresting(e, depth+1)
			maxDepth = max(maxDepth, d)
			boundary = boundary || b
		}
		return max(maxDepth, depth+1), boundary
	case wamp.List:
		if len(x) == 0 {
			boundary = true
		}
		for _, e := range x {
			d, b := payloadInteresting(e, depth+1)
			maxDepth = max(maxDepth, d)
			boundary = boundary || b
		}
		return max(maxDepth, depth+1), boundary
	case int64:
		a := x
		if a < 0 {
			a = -a
		}
		return depth, a >= 1<<31
	case uint64:
		return depth, x >= 1<<31
	case string:
		for _, r := range x {
			if r > 127 || r == 0 {
				return depth, true
			}
		}
	case float64:
		return depth, x != math.Trunc(x)
	}
	return depth, false
}

func genericList(s serialize.Serializer, b []byte) ([]any, error) {
	var v []any
	err := s.DeserializeDataItem(b, &v)
	return v, err
}

func runC14(c *Case) (v Verdict) {
	v = Verdict{Kind: "ok", Prop: "C14"}
	defer func() {
		if r := recover(); r != nil {
			v = Verdict{Kind: "crash", Prop: "C14", Reason: fmt.Sprint("panic: ", r)}
		}
	}()
	st := &v.Stats
	switch c.P["kind"].S {
	case "msg":
		m := buildRaw(c.Ops[0].Msg, nil)
		if m == nil {
			return v
		}
		bin := c.P["bin"].S == "true"
		var sers []string
		for _, s := range serNames {
			if s == "json" && bin {
				continue
			}
			sers = append(sers, s)
		}
		decoded := map[string]wamp.Message{}
		for _, name := range sers {
			s := serializerFor(name)
			b, err := s.Serialize(m)
			if err != nil {
				return c14Fail("%s: Serialize(%s) failed: %v", name, MsgString(m), err)
			}
			d, err := s.Deserialize(b)
			if err != nil {
				return c14Fail("%s: Deserialize(Serialize(m)) failed: %v for %s", name, err, MsgString(m))
			}
			if diff := msgEqual(m, d); diff != "" {
				return c14Fail("%s round trip changed the message: %s\n  sent: %s\n  got:  %s", name, diff, MsgString(m), MsgString(d))
			}
			decoded[name] = d
			// wire shape
			gl, err := genericList(s, b)
			if err != nil {
				return c14Fail("%s: serialised form is not a list: %v", name, err)
			}
			mv := reflect.ValueOf(m).Elem()
			nf := mv.NumField()
			want := nf + 1
			hasPayload := nf >= 2 && mv.Field(nf-1).Type() == tDict && mv.Field(nf-2).Type() == tList
			if hasPayload {
				kwLen, argLen := mv.Field(nf-1).Len(), mv.Field(nf-2).Len()
				switch {
				case kwLen > 0:
					want = nf + 1
					ph := gl[nf-1]
					if !isEmptyCanon(Canon(ph)) && argLen == 0 {
						return c14Fail("%s: kwargs-only message has a non-empty positional placeholder %v", name, ph)
					}
					st.Label("shape_kwargs")
				case argLen > 0:
					want = nf
					st.Label("shape_args_only")
				default:
					want = nf - 1
					st.Label("shape_no_payload")
				}
			}
			if len(gl) != want {
				return c14Fail("%s: wire list has %d elements, expected %d (trailing empty arguments must be omitted, kwargs keep their position) for %s", name, len(gl), want, MsgString(m))
			}
			// idempotence
			b2, err := s.Serialize(d)
			if err != nil {
				return c14Fail("%s: re-serialising the decoded message failed: %v", name, err)
			}
			gl2, err := genericList(s, b2)
			if err != nil || !CanonEq(Canon(gl), Canon(gl2)) {
				return c14Fail("%s: serialise(deserialise(serialise(m))) differs from serialise(m): %s vs %s", name, Show(Canon(gl)), Show(Canon(gl2)))
			}
		}
		for i := 0; i < len(sers); i++ {
			for j := i + 1; j < len(sers); j++ {
				if diff := msgEqual(decoded[sers[i]], decoded[sers[j]]); diff != "" {
					return c14Fail("%s and %s decode the same message differently: %s", sers[i], sers[j], diff)
				}
			}
		}
		st.Label("msg_roundtrip")
		mv := reflect.ValueOf(m).Elem()
		for i := 0; i < mv.NumField(); i++ {
			d, b := payloadInteresting(mv.Field(i).Interface(), 0)
			if d >= 2 && b {
				st.NonTrivial = true
			}
		}
	case "bytes", "mutant":
		name := c.P["ser"].S
		s := serializerFor(name)
		var b []byte
		mustErr := ""
		if c.P["kind"].S == "bytes" {
			b, _ = c.P["b"].Go().([]byte)
		} else {
			m := buildRaw(c.Ops[0].Msg, nil)
			if m == nil {
				return v
			}
			valid, err := s.Serialize(m)
			if err != nil {
				return v
			}
			gl, err := genericList(s, valid)
			if err != nil {
				return c14Fail("%s: cannot decode own encoding generically: %v", name, err)
			}
			repl := c.P["repl"].Go()
			enc := func(x any) []byte {
				out, err := s.SerializeDataItem(x)
				if err != nil {
					return valid
				}
				return out
			}
			switch c.P["mut"].S {
			case "toplevel":
				switch r := repl.(type) {
				case wamp.List:
					b = valid
				default:
					b = enc(r)
					mustErr = "top level is not a list"
				}
			case "code_unknown":
				gl[0] = pick2(c.P["fi"].Go().(int), []any{0, 7, 9, 15, 18, 71, 255, 1000, -1})
				b = enc(gl)
				mustErr = "unknown message code"
			case "code_type":
				gl[0] = pick2(c.P["fi"].Go().(int), []any{"1", true, nil, []any{1}, map[string]any{}, 1.5})
				b = enc(gl)
				mustErr = "message code is not an integer"
			case "empty_list":
				b = enc([]any{})
				mustErr = "empty list"
			case "field_kind":
				fi := 1 + c.P["fi"].Go().(int)%max(1, len(gl)-1)
				if fi < len(gl) {
					ft := reflect.ValueOf(m).Elem().Field(fi - 1).Type()
					if incompatible(ft, repl) {
						mustErr = fmt.Sprintf("field %d (%s) replaced by %T", fi, ft, repl)
					}
					gl[fi] = Canon2Plain(repl)
				}
				b = enc(gl)
			case "truncate":
				cut := c.P["cut"].Go().(int) % (len(valid) + 1)
				b = valid[:cut]
			case "garbage":
				b = append(append([]byte{}, valid...), 0xc1, 0xff, 0x00)
			case "extra_fields":
				gl = append(gl, repl, "extra")
				b = enc(gl)
			case "short":
				n := 1 + c.P["fi"].Go().(int)%len(gl)
				b = enc(gl[:n])
			}
		}
		m, err := s.Deserialize(b)
		switch {
		case err != nil && m != nil:
			return c14Fail("%s: Deserialize returned both an error (%v) and a message %s", name, err, MsgString(m))
		case err == nil && m == nil:
			return c14Fail("%s: Deserialize returned neither an error nor a message for % x", name, b)
		case err == nil:
			if mustErr != "" {
				return c14Fail("%s: Deserialize accepted an invalid input (%s) as %s; bytes % x", name, mustErr, MsgString(m), b)
			}
			if wamp.NewMessage(m.MessageType()) == nil {
				return c14Fail("%s: Deserialize produced a message of unknown type %d", name, m.MessageType())
			}
			if _, err := s.Serialize(m); err != nil {
				return c14Fail("%s: a decoded message does not re-serialise: %v", name, err)
			}
			st.Label("bytes_decoded_to_message")
			st.NonTrivial = true
		default:
			st.Label("bytes_rejected")
			if mustErr != "" {
				st.Label("invalid_input_rejected")
				st.NonTrivial = true
			}
		}
	}
	return v
}

func pick2(i int, xs []any) any { return xs[i%len(xs)] }

// Canon2Plain turns Go values produced by V.Go() into plain types the codecs encode generically.
func Canon2Plain(x any) any {
	switch v := x.(type) {
	case wamp.List:
		out := make([]any, len(v))
		for i := range v {
			out[i] = Canon2Plain(v[i])
		}
		return out
	case wamp.Dict:
		out := map[string]any{}
		for k, e := range v {
			out[k] = Canon2Plain(e)
		}
		return out
	}
	return x
}

// incompatible: the replacement value's kind can never be stored in the field type.
func incompatible(ft reflect.Type, repl any) bool {
	if repl == nil {
		return false // nil leaves the field at its zero value
	}
	switch ft {
	case tDict:
		switch repl.(type) {
		case string, int64, bool, float64, wamp.List:
			return true
		}
	case tList:
		switch repl.(type) {
		case string, int64, bool, float64, wamp.Dict:
			return true
		}
	case tID, tMT:
		switch repl.(type) {
		case string, bool, wamp.List, wamp.Dict:
			return true
		}
	case tURI, tStr:
		switch repl.(type) {
		case bool, wamp.List, wamp.Dict, float64:
			return true
		}
	}
	return false
}
