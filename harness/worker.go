package harness

import (
	"bufio"
	"encoding/json"
	"fmt"
	"io"
	"os"
	"os/exec"
	"runtime"
	"runtime/debug"
	"strings"
	"sync"
	"testing"
	"testing/synctest"
	"time"

	"pgregory.net/rapid"
)

// Verdict is the worker's answer for one case.
type Verdict struct {
	Kind   string    `json:"kind"` // ok violation crash deadlock leak hang inconclusive
	Prop   string    `json:"property,omitempty"`
	Reason string    `json:"reason,omitempty"`
	Step   int       `json:"step,omitempty"`
	Stats  CaseStats `json:"stats"`
	Trace  []string  `json:"trace,omitempty"`
	Log    []string  `json:"log,omitempty"`
	Stderr string    `json:"stderr,omitempty"`
}

// Property is the registration record of one listed property.
type Property struct {
	ID   string
	Rule string // how cases are generated and what makes one non-trivial
	// Gen draws a case (shard side).
	Gen func(t *rapid.T) *Case
	// NewOracle builds the oracle for the generic router engine (worker side).
	NewOracle func(c *Case) Oracle
	// Exec, when set, replaces the generic router engine (worker side, inside the bubble).
	Exec func(t *testing.T, c *Case, trace bool) Verdict
	// Pure properties run in the shard process without worker or bubble.
	Pure func(c *Case) Verdict
	// Which abnormal verdicts are violations of this property (others: inconclusive).
	LivenessClaimed bool
	// Optional static regression cases always run first.
	Pinned func() []*Case
	// Number of times a case with a par batch is executed per evaluation.
	ParRuns int
	Assumptions []string
}

var registry = map[string]*Property{}

func register(p *Property) { registry[p.ID] = p }

// runCaseInBubble executes one case inside a fresh synctest bubble and turns
// every abnormal end into a verdict.
func runCaseInBubble(t *testing.T, c *Case, trace bool) (v Verdict) {
	p := registry[c.Prop]
	if p == nil {
		return Verdict{Kind: "inconclusive", Reason: "unknown property " + c.Prop}
	}
	if p.Pure != nil {
		return p.Pure(c)
	}
	defer func() {
		runtime.GOMAXPROCS(runtime.NumCPU())
		if r := recover(); r != nil {
			msg := fmt.Sprint(r)
			if v.Kind == "violation" || v.Kind == "crash" {
				// the case already failed; goroutines left behind by the early
				// return are a consequence, not a second finding
				return
			}
			switch {
			case strings.Contains(msg, "main bubble goroutine has exited"):
				v.Kind = "leak"
				buf := make([]byte, 1<<20)
				buf = buf[:runtime.Stack(buf, true)]
				v.Reason = msg + "\n" + leakedGoroutines(string(buf))
			case strings.Contains(msg, "all goroutines in bubble are blocked"):
				v.Kind = "deadlock"
				v.Reason = msg
			default:
				v.Kind = "crash"
				v.Reason = "panic on bubble goroutine: " + msg + "\n" + string(debug.Stack())
			}
			v.Prop = c.Prop
		}
	}()
	synctest.Test(t, func(t *testing.T) {
		defer func() {
			if r := recover(); r != nil {
				v = Verdict{Kind: "crash", Prop: c.Prop, Reason: "panic in case executor: " + fmt.Sprint(r) + "\n" + string(debug.Stack())}
			}
		}()
		if p.Exec != nil {
			v = p.Exec(t, c, trace)
			return
		}
		v = runRouterEngine(p, c, trace)
	})
	return v
}

func runRouterEngine(p *Property, c *Case, trace bool) Verdict {
	e := NewEngine(c)
	e.KeepTrace = trace
	if c.Prop == "C04" {
		for i := range c.Sess {
			if q := c.Sess[i].QSize; q > 0 && q <= 4 {
				e.Nudge = true
			}
		}
	}
	o := p.NewOracle(c)
	viol := e.Run(o)
	v := Verdict{Kind: "ok", Prop: c.Prop, Stats: o.Stats()}
	if viol != nil {
		v.Kind = "violation"
		v.Reason = viol.Reason
		v.Step = viol.Step
		v.Log = e.Log.Tail()
		if trace {
			v.Trace = e.Trace
		}
		if earlyVerdict != nil {
			// report before cleaning up: releasing the engine's goroutines closes the
			// router, which may itself hang when the violation is a wedged router
			earlyVerdict(v)
		}
		e.Abandon()
	}
	if trace {
		v.Trace = e.Trace
	}
	return v
}

// ---- worker process ------------------------------------------------------------

// earlyVerdict, when set (worker process), sends a violation verdict to the
// shard before the engine is torn down.
var earlyVerdict func(Verdict)

type workerReq struct {
	Case     *Case `json:"case"`
	Trace    bool  `json:"trace,omitempty"`
	Realtime bool  `json:"realtime,omitempty"`
}

// WorkerMain is the body of TestWorker: serve cases from stdin, answer on fd 3.
func WorkerMain(t *testing.T) {
	out := os.NewFile(3, "verdicts")
	if out == nil {
		t.Fatal("worker: fd 3 missing")
	}
	in := bufio.NewReaderSize(os.Stdin, 1<<20)
	enc := json.NewEncoder(out)
	for {
		line, err := in.ReadBytes('\n')
		if len(line) > 0 {
			var req workerReq
			if jerr := json.Unmarshal(line, &req); jerr != nil {
				_ = enc.Encode(Verdict{Kind: "inconclusive", Reason: "bad request: " + jerr.Error()})
			} else {
				if req.Realtime {
					_ = enc.Encode(runCaseRealtime(req.Case))
					return // goroutines of a real-time run are not contained: one case per process
				}
				sent := false
				earlyVerdict = func(v Verdict) {
					if !sent {
						sent = true
						_ = enc.Encode(v)
					}
				}
				v := runCaseInBubble(t, req.Case, req.Trace)
				if sent {
					return // the shard replaces the worker after a violation
				}
				_ = enc.Encode(v)
				if v.Kind == "leak" || v.Kind == "deadlock" {
					// Leftover goroutines of the failed bubble are inert but the
					// shard recycles the worker anyway.
					return
				}
			}
		}
		if err != nil {
			return
		}
	}
}

// ---- worker handle (shard side) -----------------------------------------------

type workerHandle struct {
	cmd    *exec.Cmd
	stdin  io.WriteCloser
	resp   *bufio.Reader
	respF  *os.File
	stderr *tailBuf
	race   bool
}

type tailBuf struct {
	mu  sync.Mutex
	buf []byte
	max int
}

func (t *tailBuf) Write(p []byte) (int, error) {
	t.mu.Lock()
	t.buf = append(t.buf, p...)
	if len(t.buf) > t.max {
		t.buf = t.buf[len(t.buf)-t.max:]
	}
	t.mu.Unlock()
	return len(p), nil
}

func (t *tailBuf) String() string {
	t.mu.Lock()
	defer t.mu.Unlock()
	return string(t.buf)
}

func workerBinary() string {
	if b := os.Getenv("VERIF_WORKER_BIN"); b != "" {
		return b
	}
	return os.Args[0]
}

func startWorker() (*workerHandle, error) {
	pr, pw, err := os.Pipe()
	if err != nil {
		return nil, err
	}
	cmd := exec.Command(workerBinary(), "-test.run", "^TestWorker$", "-test.timeout", "0")
	cmd.Env = append(os.Environ(), "VERIF_WORKER=1", "GORACE=halt_on_error=1 exitcode=66", "GOTRACEBACK=all")
	cmd.ExtraFiles = []*os.File{pw}
	stdin, err := cmd.StdinPipe()
	if err != nil {
		return nil, err
	}
	tb := &tailBuf{max: 64 << 10}
	cmd.Stderr = tb
	cmd.Stdout = tb
	if err := cmd.Start(); err != nil {
		return nil, err
	}
	pw.Close()
	return &workerHandle{cmd: cmd, stdin: stdin, resp: bufio.NewReaderSize(pr, 1<<20), respF: pr, stderr: tb}, nil
}

func (w *workerHandle) kill() {
	if w == nil || w.cmd == nil {
		return
	}
	_ = w.stdin.Close()
	_ = w.cmd.Process.Kill()
	_, _ = w.cmd.Process.Wait()
	_ = w.respF.Close()
	w.cmd = nil
}

// watchdog per case (real time).
var caseWatchdog = 30 * time.Second

// run sends a case and waits for the verdict. alive=false means the worker is
// gone and must be replaced.
// confirmRealtime runs the case once on the real clock in a fresh worker.
func confirmRealtime(c *Case) Verdict {
	w, err := startWorker()
	if err != nil {
		return Verdict{Kind: "inconclusive", Reason: "cannot start worker: " + err.Error()}
	}
	defer w.kill()
	old := caseWatchdog
	v, _ := w.runReq(workerReq{Case: c, Realtime: true}, 450*time.Second)
	_ = old
	return v
}

func (w *workerHandle) run(c *Case, trace bool) (v Verdict, alive bool) {
	return w.runReq(workerReq{Case: c, Trace: trace}, caseWatchdog)
}

func (w *workerHandle) runReq(req workerReq, watchdog time.Duration) (v Verdict, alive bool) {
	c := req.Case
	b, _ := json.Marshal(req)
	b = append(b, '\n')
	if _, err := w.stdin.Write(b); err != nil {
		w.kill()
		return Verdict{Kind: "crash", Prop: c.Prop, Reason: "worker died before accepting the case: " + err.Error(), Stderr: w.stderr.String()}, false
	}
	type res struct {
		line []byte
		err  error
	}
	ch := make(chan res, 1)
	go func() {
		line, err := w.resp.ReadBytes('\n')
		ch <- res{line, err}
	}()
	select {
	case r := <-ch:
		if len(r.line) == 0 || r.err != nil {
			// Worker died: panic in a router goroutine, Go fatal error, or race report.
			time.Sleep(50 * time.Millisecond)
			_ = w.stdin.Close()
			done := make(chan struct{})
			go func() { _, _ = w.cmd.Process.Wait(); close(done) }()
			select {
			case <-done:
			case <-time.After(5 * time.Second):
				_ = w.cmd.Process.Kill()
			}
			se := w.stderr.String()
			w.cmd = nil
			_ = w.respF.Close()
			kind := "crash"
			return Verdict{Kind: kind, Prop: c.Prop, Reason: crashSummary(se), Stderr: tailStr(se, 6000)}, false
		}
		if err := json.Unmarshal(r.line, &v); err != nil {
			w.kill()
			return Verdict{Kind: "inconclusive", Reason: "bad verdict: " + err.Error()}, false
		}
		if v.Kind == "leak" || v.Kind == "deadlock" || v.Kind == "violation" {
			// (a violation verdict is sent before the engine is torn down, which may hang)
			w.kill()
			return v, false
		}
		return v, true
	case <-time.After(watchdog):
		// Hang: ask for a goroutine dump, then kill.
		_ = w.cmd.Process.Signal(sigquit)
		time.Sleep(300 * time.Millisecond)
		se := w.stderr.String()
		w.kill()
		kind := "hang"
		if strings.Contains(se, "sync.(*Mutex).Lock") || strings.Contains(se, "sync.(*RWMutex)") {
			// A goroutine waiting for a sync.Mutex is not durably blocked for
			// synctest. If at the same time some goroutine sleeps on the fake
			// clock (it would wake up in real time and release everything), the
			// bubble cannot become idle, the fake clock cannot advance and the
			// case hangs in real time although the real program would go on:
			// an artefact of the test clock, not a router hang.
			kind = "inconclusive"
			if strings.Contains(se, "(*dealer).yield") || strings.Contains(se, "time.Sleep") || strings.Contains(se, "[sleep") || strings.Contains(se, "RecvTimeout") ||
				strings.Contains(se, "Peer).recvHandler") || strings.Contains(se, "Peer).Close") {
				kind = "artefact"
			}
		}
		return Verdict{Kind: kind, Prop: c.Prop, Reason: "no verdict within the real-time watchdog", Stderr: tailStr(se, 12000)}, false
	}
}

func tailStr(s string, n int) string {
	if len(s) > n {
		return s[len(s)-n:]
	}
	return s
}

func crashSummary(stderr string) string {
	for _, marker := range []string{"WARNING: DATA RACE", "fatal error:", "panic:"} {
		if i := strings.Index(stderr, marker); i >= 0 {
			end := i + 400
			if end > len(stderr) {
				end = len(stderr)
			}
			return "worker process died: " + strings.TrimSpace(stderr[i:end])
		}
	}
	return "worker process died without a verdict"
}


// leakedGoroutines extracts the goroutines that still belong to a synctest bubble from a full dump.
func leakedGoroutines(dump string) string {
	var out []string
	for _, g := range strings.Split(dump, "\n\n") {
		first, _, _ := strings.Cut(g, "\n")
		if strings.Contains(first, "synctest bubble") {
			lines := strings.Split(g, "\n")
			if len(lines) > 14 {
				lines = lines[:14]
			}
			out = append(out, strings.Join(lines, "\n"))
		}
	}
	if len(out) > 6 {
		out = out[:6]
	}
	return strings.Join(out, "\n\n")
}
