package harness

// C19 — URI validation/matching and id generation follow the WAMP rules.
// Pure functions: no router, no bubble. Oracle: model_uri.go and the id model
// below, compared for equality on every generated input outside the grey zone.

import (
	"fmt"
	"math"
	"strings"
	"unsafe"

	"github.com/gammazero/nexus/v3/wamp"
	"pgregory.net/rapid"
)

const maxID = uint64(1) << 53
const wrapWindow = 500 // wamp/session.go: "maximum allowed wraparound distance"

func init() {
	register(&Property{
		ID: "C19",
		Rule: "pure-function checks against an independent component-wise URI model and an id model: (a) exhaustive enumeration of all strings up to length 6 over the " +
			"9-symbol alphabet {a Z 0 _ . # space é \\n} x 6 (strict,policy) modes [pinned, every run]; (b) rapid strings of arbitrary Unicode/invalid UTF-8 content; " +
			"(c) topic/pattern pairs derived from each other for prefix and wildcard matching; (d) IDGen sequences started near 2^53; (e) AsID over every numeric Go type; " +
			"(f) (last,id) pairs around the wrap window; (g) GlobalID batches. Non-trivial = URI with >=2 components and a boundary shape (empty component, leading/trailing dot, forbidden byte), " +
			"or an id within 600 of 0 / 2^53 / window edge; distinct = distinct case hash",
		Gen:  genC19,
		Pure: runC19,
		Pinned: func() []*Case {
			var out []*Case
			for i := 0; i < len(c19Alphabet); i++ {
				out = append(out, &Case{Prop: "C19", P: map[string]V{"kind": VStr("exhaustive"), "first": VInt(i)}})
			}
			return out
		},
		Assumptions: []string{
			"Unicode white space outside Go's \\s (\\v, U+0085, U+00A0, U+2028 ...) inside a loose component is a grey zone: either verdict accepted",
			"wrap-around window taken as 500 (documented constant in wamp/session.go)",
			"AsID is judged on integral values only (fractional floats are outside the statement)",
			"IDGen start value is set through its single uint64 field (layout asserted at run time)",
		},
	})
}

var c19Alphabet = []string{"a", "Z", "0", "_", ".", "#", " ", "é", "\n"}

var c19Modes = []struct {
	strict bool
	match  string
}{{false, ""}, {false, "prefix"}, {false, "wildcard"}, {true, ""}, {true, "prefix"}, {true, "wildcard"}}

func genC19(t *rapid.T) *Case {
	c := &Case{P: map[string]V{}}
	switch uni(t, 9, "kind") {
	case 0, 1: // arbitrary string
		var s string
		switch uni(t, 3, "skind") {
		case 0:
			s = rapid.String().Draw(t, "s")
		case 1:
			s = string(rapid.SliceOfN(rapid.Byte(), 0, 12).Draw(t, "bytes"))
		default:
			// structured: components from a hostile alphabet
			n := 1 + uni(t, 4, "ncomp")
			comps := make([]string, n)
			for i := range comps {
				comps[i] = pick(t, []string{"a", "ab", "", "A", "a b", "x#", "é", "_1", "\t", "\v", " ", " ", "a\x00", "\xff", "0", "wamp"}, "comp")
			}
			s = strings.Join(comps, ".")
		}
		c.P["kind"] = VStr("uri")
		c.P["s"] = VBin([]byte(s))
	case 2, 3: // matching
		topic := genTopicN(t, 5)
		var pat string
		kind := pick(t, []string{"prefix", "wildcard"}, "mk")
		switch uni(t, 4, "rel") {
		case 0:
			pat = genTopicN(t, 5)
		case 1: // cut topic (byte-wise: also inside a component)
			pat = topic[:uni(t, len(topic)+1, "cut")]
		case 2: // blank components
			cs := strings.Split(topic, ".")
			for i := range cs {
				if rapid.Bool().Draw(t, "blank") {
					cs[i] = ""
				}
			}
			pat = strings.Join(cs, ".")
		default: // one more / one fewer component
			if rapid.Bool().Draw(t, "more") {
				pat = topic + "."
			} else {
				pat = strings.TrimSuffix(topic, "."+lastComp(topic))
			}
		}
		c.P["kind"] = VStr("match")
		c.P["mk"] = VStr(kind)
		c.P["topic"] = VStr(topic)
		c.P["pat"] = VStr(pat)
	case 4: // IDGen
		start := pick(t, []uint64{0, 1, 2, maxID - 3, maxID - 2, maxID - 1, maxID, 12345}, "start")
		c.P["kind"] = VStr("idgen")
		c.P["start"] = VU64(start)
		c.P["n"] = VInt(1 + uni(t, 8, "n"))
		c.P["sync"] = VBool(rapid.Bool().Draw(t, "sync"))
	case 5: // AsID
		c.P["kind"] = VStr("asid")
		c.P["v"] = genIDLike(t)
	case 6: // a sequence of ids received on one session: the last accepted one is what counts
		n := 2 + uni(t, 7, "seqn")
		ids := make([]V, n)
		for i := range ids {
			switch uni(t, 4, "seqk") {
			case 0:
				ids[i] = VU64(genNear(t, "seqid"))
			case 1:
				ids[i] = VU64(uint64(1 + uni(t, 600, "small")))
			case 2:
				ids[i] = VU64(maxID - uint64(uni(t, 600, "high")))
			default:
				if i > 0 {
					ids[i] = ids[i-1] // replay of the previous id
				} else {
					ids[i] = VU64(maxID)
				}
			}
		}
		c.P["kind"] = VStr("recvseq")
		c.P["ids"] = VList(ids...)
		c.P["locked"] = VBool(rapid.Bool().Draw(t, "locked"))
	case 7: // IsNewRecvID
		last := genNear(t, "last")
		id := genNear(t, "id")
		c.P["kind"] = VStr("recvid")
		c.P["last"] = VU64(last)
		c.P["id"] = VU64(id)
	default:
		c.P["kind"] = VStr("globalid")
		c.P["n"] = VInt(50)
	}
	return c
}

func lastComp(s string) string {
	i := strings.LastIndex(s, ".")
	return s[i+1:]
}

func genTopicN(t *rapid.T, max int) string {
	n := 1 + uni(t, max, "ncomp")
	c := make([]string, n)
	for i := range c {
		c[i] = pick(t, []string{"a", "b", "ab", "é"}, "comp")
	}
	return strings.Join(c, ".")
}

func genNear(t *rapid.T, label string) uint64 {
	base := pick(t, []uint64{0, 1, wrapWindow, maxID - wrapWindow, maxID, maxID / 2, 1 << 63, math.MaxUint64}, label+"base")
	off := int64(uni(t, 1203, label+"off")) - 601
	v := int64(base) + off
	if base >= 1<<63 {
		return base - uint64(uni(t, 3, label+"o2"))
	}
	if v < 0 {
		return 0
	}
	return uint64(v)
}

func genIDLike(t *rapid.T) V {
	u := genNear(t, "u")
	switch uni(t, 9, "ty") {
	case 0:
		return VU64(u)
	case 1:
		return VI64(int64(u))
	case 2:
		return VI64(-int64(u % (1 << 62)))
	case 3:
		return VInt(int(int64(u)))
	case 4:
		return VID(u)
	case 5:
		return VF64(float64(u))
	case 6:
		return V{T: "u32", S: fmt.Sprint(uint32(u))}
	case 7:
		return V{T: "i32", S: fmt.Sprint(int32(u))}
	default:
		return pick(t, []V{VStr("12"), VNil(), VBool(true), VList(), VF64(math.Inf(1)), VF64(math.NaN()), VF64(-1)}, "odd")
	}
}

func c19Fail(format string, a ...any) Verdict {
	return Verdict{Kind: "violation", Prop: "C19", Reason: fmt.Sprintf(format, a...)}
}

func checkURIString(s string, st *CaseStats) *Verdict {
	for _, m := range c19Modes {
		want, grey := modelValidURI(s, m.strict, m.match)
		if grey {
			st.Label("uri_grey")
			continue
		}
		got := wamp.URI(s).ValidURI(m.strict, m.match)
		if got != want {
			v := c19Fail("ValidURI(%q, strict=%v, match=%q) = %v, the component rule says %v", s, m.strict, m.match, got, want)
			return &v
		}
	}
	return nil
}

func uriBoundaryShape(s string) bool {
	if !strings.Contains(s, ".") {
		return false
	}
	return strings.HasPrefix(s, ".") || strings.HasSuffix(s, ".") || strings.Contains(s, "..") || strings.ContainsAny(s, " #\t\n\r\f")
}

func runC19(c *Case) (v Verdict) {
	v = Verdict{Kind: "ok", Prop: "C19"}
	defer func() {
		if r := recover(); r != nil {
			v = Verdict{Kind: "crash", Prop: "C19", Reason: fmt.Sprint("panic: ", r)}
		}
	}()
	st := &v.Stats
	kind := c.P["kind"].S
	switch kind {
	case "exhaustive":
		first := c.P["first"].Go().(int)
		n := 0
		var rec func(prefix string, depth int) *Verdict
		rec = func(prefix string, depth int) *Verdict {
			if bad := checkURIString(prefix, st); bad != nil {
				return bad
			}
			n += len(c19Modes)
			if depth == 6 {
				return nil
			}
			for _, a := range c19Alphabet {
				if bad := rec(prefix+a, depth+1); bad != nil {
					return bad
				}
			}
			return nil
		}
		if first == 0 {
			if bad := checkURIString("", st); bad != nil {
				return *bad
			}
		}
		if bad := rec(c19Alphabet[first], 1); bad != nil {
			return *bad
		}
		st.Labels = map[string]int{"exhaustive_uri_mode_evaluations": n}
		st.NonTrivial = true
	case "uri":
		s := string(c.P["s"].Go().([]byte))
		if bad := checkURIString(s, st); bad != nil {
			return *bad
		}
		st.Label("uri_string")
		if uriBoundaryShape(s) {
			st.NonTrivial = true
			st.Label("uri_boundary_shape")
		}
	case "match":
		topic, pat := c.P["topic"].S, c.P["pat"].S
		if c.P["mk"].S == "prefix" {
			got, want := wamp.URI(topic).PrefixMatch(wamp.URI(pat)), modelPrefixMatch(topic, pat)
			if got != want {
				return c19Fail("PrefixMatch(topic=%q, prefix=%q) = %v, want %v", topic, pat, got, want)
			}
			if want {
				st.Label("prefix_match_true")
			}
		} else {
			got, want := wamp.URI(topic).WildcardMatch(wamp.URI(pat)), modelWildcardMatch(topic, pat)
			if got != want {
				return c19Fail("WildcardMatch(topic=%q, pattern=%q) = %v, want %v", topic, pat, got, want)
			}
			if want {
				st.Label("wildcard_match_true")
			}
		}
		st.NonTrivial = strings.Contains(topic, ".")
	case "idgen":
		start := c.P["start"].Go().(uint64)
		n := c.P["n"].Go().(int)
		if unsafe.Sizeof(wamp.IDGen{}) != 8 {
			return Verdict{Kind: "inconclusive", Reason: "wamp.IDGen layout changed; cannot preset the counter"}
		}
		next := func() wamp.ID { return 0 }
		if c.P["sync"].S == "true" {
			g := new(wamp.SyncIDGen)
			*(*uint64)(unsafe.Pointer(&g.IDGen)) = start
			next = g.Next
		} else {
			g := new(wamp.IDGen)
			*(*uint64)(unsafe.Pointer(g)) = start
			next = g.Next
		}
		cur := start
		for i := 0; i < n; i++ {
			want := cur + 1
			if cur >= maxID {
				want = 1
			}
			got := uint64(next())
			if got != want {
				return c19Fail("IDGen after %d: Next() = %d, want %d (start %d, step %d)", cur, got, want, start, i)
			}
			cur = got
		}
		st.NonTrivial = start+uint64(n) >= maxID-600 || start < 600
		st.Label("idgen_sequence")
	case "asid":
		val := c.P["v"].Go()
		got, ok := wamp.AsID(val)
		want, wantOK, judged := modelAsID(val)
		if judged {
			if ok != wantOK || (ok && uint64(got) != want) {
				return c19Fail("AsID(%T %v) = (%d,%v), want (%d,%v)", val, val, got, ok, want, wantOK)
			}
			st.Label("asid_judged")
			st.NonTrivial = true
		}
	case "recvid":
		last := c.P["last"].Go().(uint64)
		id := c.P["id"].Go().(uint64)
		s := wamp.NewSession(nil, 1, nil, nil)
		if last >= 1 && last <= maxID {
			if !s.UpdateLastRecvID(wamp.ID(last)) {
				return c19Fail("UpdateLastRecvID(%d) on a fresh session returned false", last)
			}
		} else {
			last = 0
		}
		got := s.IsNewRecvID(wamp.ID(id))
		want := modelIsNew(last, id)
		if got != want {
			return c19Fail("IsNewRecvID(last=%d, id=%d) = %v, want %v", last, id, got, want)
		}
		st.Label(fmt.Sprintf("recvid_new_%v", want))
		st.NonTrivial = true
	case "recvseq":
		sess := wamp.NewSession(nil, 1, nil, nil)
		locked, _ := c.P["locked"].Go().(bool)
		var last uint64
		wrapped := false
		for i, iv := range c.P["ids"].L {
			id := iv.Go().(uint64)
			want := modelIsNew(last, id)
			var got bool
			if locked {
				sess.Lock()
				got = sess.UpdateLastRecvIDLocked(wamp.ID(id))
				sess.Unlock()
			} else {
				got = sess.UpdateLastRecvID(wamp.ID(id))
			}
			if got != want {
				return c19Fail("id %d (position %d of the sequence %s) after last accepted id %d: UpdateLastRecvID = %v, want %v", id, i, Show(c.P["ids"].Go()), last, got, want)
			}
			if want {
				if id < last {
					wrapped = true
				}
				last = id
			}
		}
		if wrapped {
			st.Label("recvseq_wrapped")
			st.NonTrivial = true
		}
		st.Label("recvseq")
	case "globalid":
		n := c.P["n"].Go().(int)
		for i := 0; i < n; i++ {
			id := uint64(wamp.GlobalID())
			if id < 1 || id > maxID {
				return c19Fail("GlobalID() = %d outside [1, 2^53]", id)
			}
		}
		st.Labels = map[string]int{"globalid_draws": n}
	}
	return v
}

// modelAsID: accepted iff the value is an integer type (or integral finite
// float) whose value lies in [1, 2^53].
func modelAsID(v any) (id uint64, ok bool, judged bool) {
	switch x := v.(type) {
	case uint64:
		return x, x >= 1 && x <= maxID, true
	case int64:
		return uint64(x), x >= 1 && uint64(x) <= maxID, true
	case int:
		return uint64(x), x >= 1 && uint64(x) <= maxID, true
	case int32:
		return uint64(x), x >= 1, true
	case uint32:
		return uint64(x), x >= 1, true
	case wamp.ID:
		return uint64(x), x >= 1 && uint64(x) <= maxID, true
	case float64:
		if math.IsNaN(x) || math.IsInf(x, 0) {
			return 0, false, true
		}
		if x != math.Trunc(x) {
			return 0, false, false
		}
		return uint64(x), x >= 1 && x <= float64(maxID), true
	case string, nil, bool, wamp.List:
		return 0, false, true
	}
	return 0, false, false
}

func modelIsNew(last, id uint64) bool {
	if id < 1 || id > maxID {
		return false
	}
	if last == 0 || id > last {
		return true
	}
	if id == last {
		return false
	}
	// forward distance from last to id going through 2^53 -> 1
	return (maxID-last)+id < wrapWindow
}
