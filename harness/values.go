package harness

// Tagged WAMP values: the form in which payloads, options and arguments are
// drawn by rapid in the shard, cross the IPC boundary to the worker and are
// stored in replay files. The tag keeps Go type information (uint64 vs int64 vs
// float64, wamp.ID vs int, …) that plain JSON would lose.

import (
	"encoding/base64"
	"fmt"
	"math"
	"reflect"
	"sort"
	"strconv"

	"github.com/gammazero/nexus/v3/wamp"
)

// V is a tagged value. T ∈ nil bool i64 u64 f64 str bin list dict int id strs uri
// i32 u32 f32 ids raw-map (map[string]any) raw-list ([]any).
type V struct {
	T string `json:"t"`
	S string `json:"s,omitempty"` // scalar payload as text (numbers, strings, base64 for bin)
	L []V    `json:"l,omitempty"` // list items
	K []KV   `json:"k,omitempty"` // dict entries in generated order
}

type KV struct {
	K string `json:"k"`
	V V      `json:"v"`
}

func VNil() V            { return V{T: "nil"} }
func VBool(b bool) V     { return V{T: "bool", S: strconv.FormatBool(b)} }
func VI64(i int64) V     { return V{T: "i64", S: strconv.FormatInt(i, 10)} }
func VU64(u uint64) V    { return V{T: "u64", S: strconv.FormatUint(u, 10)} }
func VInt(i int) V       { return V{T: "int", S: strconv.Itoa(i)} }
func VID(u uint64) V     { return V{T: "id", S: strconv.FormatUint(u, 10)} }
func VF64(f float64) V   { return V{T: "f64", S: strconv.FormatFloat(f, 'g', -1, 64)} }
func VStr(s string) V    { return V{T: "str", S: s} }
func VURI(s string) V    { return V{T: "uri", S: s} }
func VBin(b []byte) V    { return V{T: "bin", S: base64.StdEncoding.EncodeToString(b)} }
func VList(items ...V) V { return V{T: "list", L: items} }
func VDict(kvs ...KV) V  { return V{T: "dict", K: kvs} }
func VStrs(ss ...string) V {
	l := make([]V, len(ss))
	for i, s := range ss {
		l[i] = VStr(s)
	}
	return V{T: "strs", L: l}
}
func VRawList(items ...V) V { return V{T: "rawlist", L: items} }
func VRawMap(kvs ...KV) V   { return V{T: "rawmap", K: kvs} }

// Go converts a tagged value to the Go value handed to nexus.
func (v V) Go() any { return v.GoR(nil) }

func VRef(r string) V { return V{T: "ref", S: r} }

// GoR is Go with a resolver for "ref" values (run-time ids; see Engine.resolve).
func (v V) GoR(res func(string) any) any {
	switch v.T {
	case "ref":
		if res == nil {
			return wamp.ID(0)
		}
		return res(v.S)
	case "", "nil":
		return nil
	case "bool":
		return v.S == "true"
	case "i64":
		i, _ := strconv.ParseInt(v.S, 10, 64)
		return i
	case "i32":
		i, _ := strconv.ParseInt(v.S, 10, 32)
		return int32(i)
	case "u64":
		u, _ := strconv.ParseUint(v.S, 10, 64)
		return u
	case "u32":
		u, _ := strconv.ParseUint(v.S, 10, 32)
		return uint32(u)
	case "int":
		i, _ := strconv.ParseInt(v.S, 10, 64)
		return int(i)
	case "id":
		u, _ := strconv.ParseUint(v.S, 10, 64)
		return wamp.ID(u)
	case "f64":
		f, _ := strconv.ParseFloat(v.S, 64)
		return f
	case "f32":
		f, _ := strconv.ParseFloat(v.S, 32)
		return float32(f)
	case "str":
		return v.S
	case "uri":
		return wamp.URI(v.S)
	case "bin":
		b, _ := base64.StdEncoding.DecodeString(v.S)
		if b == nil {
			b = []byte{}
		}
		return b
	case "list":
		l := make(wamp.List, len(v.L))
		for i := range v.L {
			l[i] = v.L[i].GoR(res)
		}
		return l
	case "rawlist":
		l := make([]any, len(v.L))
		for i := range v.L {
			l[i] = v.L[i].GoR(res)
		}
		return l
	case "strs":
		l := make([]string, len(v.L))
		for i := range v.L {
			l[i] = v.L[i].S
		}
		return l
	case "ids":
		l := make([]wamp.ID, len(v.L))
		for i := range v.L {
			u, _ := strconv.ParseUint(v.L[i].S, 10, 64)
			l[i] = wamp.ID(u)
		}
		return l
	case "dict":
		d := make(wamp.Dict, len(v.K))
		for _, kv := range v.K {
			d[kv.K] = kv.V.GoR(res)
		}
		return d
	case "rawmap":
		d := make(map[string]any, len(v.K))
		for _, kv := range v.K {
			d[kv.K] = kv.V.GoR(res)
		}
		return d
	}
	panic("unknown V tag " + v.T)
}

func VsToList(vs []V, res func(string) any) wamp.List {
	if vs == nil {
		return nil
	}
	l := make(wamp.List, len(vs))
	for i := range vs {
		l[i] = vs[i].GoR(res)
	}
	return l
}

func KVsToDict(kvs []KV, res func(string) any) wamp.Dict {
	if kvs == nil {
		return nil
	}
	d := make(wamp.Dict, len(kvs))
	for _, kv := range kvs {
		d[kv.K] = kv.V.GoR(res)
	}
	return d
}

// ---- canonical form for comparison -------------------------------------

// Canon maps a Go value as nexus delivers it (any transport, any serializer)
// to a canonical form on which equality means "same WAMP value":
//
//	integers (any Go type, and integral floats with |x| < 2^63) -> int64 or
//	uint64 (only when > MaxInt64); other floats -> float64; strings, URIs ->
//	string; []byte -> canonBin; maps -> map[string]any; slices -> []any.
type canonBin string

func Canon(x any) any {
	switch v := x.(type) {
	case nil:
		return nil
	case bool:
		return v
	case string:
		return v
	case wamp.URI:
		return string(v)
	case []byte:
		return canonBin(v)
	case int:
		return int64(v)
	case int8:
		return int64(v)
	case int16:
		return int64(v)
	case int32:
		return int64(v)
	case int64:
		return v
	case uint8:
		return int64(v)
	case uint16:
		return int64(v)
	case uint32:
		return int64(v)
	case uint:
		return canonU(uint64(v))
	case uint64:
		return canonU(v)
	case wamp.ID:
		return canonU(uint64(v))
	case float32:
		return canonF(float64(v))
	case float64:
		return canonF(v)
	case wamp.Dict:
		m := make(map[string]any, len(v))
		for k, e := range v {
			m[k] = Canon(e)
		}
		return m
	case map[string]any:
		m := make(map[string]any, len(v))
		for k, e := range v {
			m[k] = Canon(e)
		}
		return m
	case map[any]any:
		m := make(map[string]any, len(v))
		for k, e := range v {
			m[fmt.Sprint(k)] = Canon(e)
		}
		return m
	case wamp.List:
		l := make([]any, len(v))
		for i, e := range v {
			l[i] = Canon(e)
		}
		return l
	case []any:
		l := make([]any, len(v))
		for i, e := range v {
			l[i] = Canon(e)
		}
		return l
	case []string:
		l := make([]any, len(v))
		for i, e := range v {
			l[i] = e
		}
		return l
	case []wamp.ID:
		l := make([]any, len(v))
		for i, e := range v {
			l[i] = canonU(uint64(e))
		}
		return l
	case []int:
		l := make([]any, len(v))
		for i, e := range v {
			l[i] = int64(e)
		}
		return l
	}
	// Unknown types: fall back to their printed form so that comparison is
	// still deterministic.
	return fmt.Sprintf("%T:%v", x, x)
}

func canonU(u uint64) any {
	if u <= math.MaxInt64 {
		return int64(u)
	}
	return u
}

func canonF(f float64) any {
	if f == math.Trunc(f) && math.Abs(f) < 9.2e18 {
		return int64(f)
	}
	return f
}

// CanonEq compares two canonical values. emptyNil makes nil equal to an empty
// list / dict (for the omitempty payload fields).
func CanonEq(a, b any) bool {
	switch x := a.(type) {
	case map[string]any:
		y, ok := b.(map[string]any)
		if !ok || len(x) != len(y) {
			return false
		}
		for k, v := range x {
			w, ok := y[k]
			if !ok || !CanonEq(v, w) {
				return false
			}
		}
		return true
	case []any:
		y, ok := b.([]any)
		if !ok || len(x) != len(y) {
			return false
		}
		for i := range x {
			if !CanonEq(x[i], y[i]) {
				return false
			}
		}
		return true
	case float64:
		y, ok := b.(float64)
		if !ok {
			return false
		}
		return x == y || (math.IsNaN(x) && math.IsNaN(y))
	}
	return a == b
}

// PayloadEq compares list or dict payload fields where nil ≡ empty.
func PayloadEq(a, b any) bool {
	ca, cb := Canon(a), Canon(b)
	if isEmptyCanon(ca) && isEmptyCanon(cb) {
		return true
	}
	return CanonEq(ca, cb)
}

func isEmptyCanon(x any) bool {
	switch v := x.(type) {
	case nil:
		return true
	case []any:
		return len(v) == 0
	case map[string]any:
		return len(v) == 0
	}
	return false
}

// Show renders a canonical value deterministically (sorted keys) for logs.
func Show(x any) string {
	switch v := x.(type) {
	case map[string]any:
		keys := make([]string, 0, len(v))
		for k := range v {
			keys = append(keys, k)
		}
		sort.Strings(keys)
		s := "{"
		for i, k := range keys {
			if i > 0 {
				s += ","
			}
			s += strconv.Quote(k) + ":" + Show(v[k])
		}
		return s + "}"
	case []any:
		s := "["
		for i, e := range v {
			if i > 0 {
				s += ","
			}
			s += Show(e)
		}
		return s + "]"
	case string:
		return strconv.Quote(v)
	case canonBin:
		return "bin:" + strconv.Quote(string(v))
	case nil:
		return "null"
	}
	return fmt.Sprint(x)
}

// reflectFields returns the struct fields of a message in declaration order.
func reflectFields(m wamp.Message) []any {
	rv := reflect.ValueOf(m)
	if rv.Kind() == reflect.Pointer {
		rv = rv.Elem()
	}
	var out []any
	if rv.Kind() != reflect.Struct {
		return out
	}
	for i := 0; i < rv.NumField(); i++ {
		if rv.Field(i).CanInterface() {
			out = append(out, rv.Field(i).Interface())
		}
	}
	return out
}
