package harness

// C10 — a message is acted upon iff the Authorizer allowed it.
// Differential: run A = router with a generated decision-table authorizer;
// run B = router without authorizer fed the filtered and pre-rewritten history.

import (
	"fmt"
	"strings"
	"testing"

	"github.com/gammazero/nexus/v3/router"
	"github.com/gammazero/nexus/v3/wamp"
	"pgregory.net/rapid"
)

func init() {
	register(&Property{
		ID: "C10",
		Rule: "rapid-generated pub/sub+RPC histories on a realm with an Authorizer that is a generated decision table keyed by (request type, URI, authid) -> allow / deny / fail(error) / rewrite(URI) / allow-and-scribble, RequireLocalAuthz on/off, local and serialised sessions. " +
			"Each case runs twice in one bubble: A with the table, B without an authorizer on the history with denied requests removed and rewrites applied (request ids kept aligned). Oracle: per step and session the canonical observations of A minus the authorization ERRORs equal those of B; " +
			"every denied request got exactly one ERROR{its type, its id, not_authorized | authorization_failed} (none for an unacknowledged PUBLISH); the H1 table snapshots of A and B are equal at the end; the meta session and exempt in-process sessions were never consulted. " +
			"Non-trivial = a history with >=1 denied and >=1 rewritten request of different types; distinct = case hash",
		Gen:  genC10,
		Exec: execC10,
		Assumptions: []string{
			"rules are generated for PUBLISH SUBSCRIBE UNSUBSCRIBE REGISTER UNREGISTER CALL CANCEL YIELD ERROR GOODBYE; how the refusal of an ERROR or GOODBYE (not requests) is reported to the sender is not asserted, only that it has no effect",
			"the 'scribble' action (authorizer modifies session details) cannot be reproduced in run B and is judged for robustness only (cases containing it skip the comparison of details-dependent filters)",
		},
	})
}

var c10Users = []UserCfg{{AuthID: "u1", Role: "r1"}, {AuthID: "u2", Role: "r2"}, {AuthID: "x1", Role: "r1"}, {AuthID: "x2", Role: "r2"}}

func genC10(t *rapid.T) *Case {
	rlz := rapid.Bool().Draw(t, "requireLocalAuthz")
	n := 2 + uni(t, 3, "nsess")
	c := &Case{}
	var sess []SessCfg
	for i := 0; i < n; i++ {
		s := SessCfg{Realm: "r1", Roles: fullRoles(), AuthMeth: []string{"static"}}
		remote := pct(t, 65, "remote")
		if remote {
			s.Transport = pick(t, remoteTransports, "tr")
		}
		// exempt (in-process, local authz not required) sessions get x* authids so that consultations can be attributed
		if !remote && !rlz {
			s.Hello = []KV{{"authid", VStr(pick(t, []string{"x1", "x2"}, "xid"))}}
		} else {
			s.Hello = []KV{{"authid", VStr(pick(t, []string{"u1", "u2"}, "uid"))}}
		}
		sess = append(sess, s)
	}
	uris := []string{"a", "a.b", "b", "b.a", "a.a"}
	var rules []AuthzRule
	// one denial and one rewrite on different request types up front, then random rules
	t1 := pick(t, []string{"PUBLISH", "SUBSCRIBE", "REGISTER", "CALL", "UNSUBSCRIBE", "UNREGISTER", "CANCEL", "YIELD", "YIELD", "ERROR", "GOODBYE"}, "t1")
	t2 := pick(t, []string{"PUBLISH", "SUBSCRIBE", "REGISTER", "CALL"}, "t2")
	r1 := AuthzRule{Msg: t1, Act: pick(t, []string{"deny", "fail"}, "a1")}
	if t1 == "PUBLISH" || t1 == "SUBSCRIBE" || t1 == "REGISTER" || t1 == "CALL" {
		r1.URI = pick(t, uris, "u1")
	}
	rules = append(rules, r1)
	if t2 != t1 {
		rules = append(rules, AuthzRule{Msg: t2, URI: pick(t, uris, "u2"), Act: "rewrite", NewURI: pick(t, uris, "u3")})
	}
	nr := uni(t, 5, "nrules")
	for i := 0; i < nr; i++ {
		r := AuthzRule{Msg: pick(t, []string{"PUBLISH", "SUBSCRIBE", "UNSUBSCRIBE", "REGISTER", "UNREGISTER", "CALL", "CANCEL", "PUBLISH", "CALL", "SUBSCRIBE", "YIELD", "ERROR", "GOODBYE"}, "rmsg"),
			Act: pick(t, []string{"deny", "deny", "fail", "rewrite", "rewrite", "allow", "scribble"}, "ract")}
		hasURI := r.Msg == "PUBLISH" || r.Msg == "SUBSCRIBE" || r.Msg == "REGISTER" || r.Msg == "CALL"
		if hasURI && pct(t, 70, "ruri") {
			r.URI = pick(t, uris, "ruriv")
		}
		if pct(t, 40, "rauthid") {
			r.AuthID = pick(t, []string{"u1", "u2"}, "rauthidv")
		}
		if r.Act == "rewrite" {
			if !hasURI {
				r.Act = "deny"
			} else {
				r.NewURI = pick(t, uris, "newuri")
			}
		}
		if r.Act == "scribble" && pct(t, 70, "noscribble") {
			r.Act = "allow"
		}
		rules = append(rules, r)
	}
	c.Realms = []RealmCfg{{URI: "r1", Anonymous: true, RequireLocalAuth: true, RequireLocalAuthz: rlz, Auths: []string{"static"}, Users: c10Users,
		AllowDisclose: rapid.Bool().Draw(t, "ad"), Authz: &AuthzCfg{Rules: rules}}}
	if pct(t, 25, "template") {
		// the realm does not exist up front: the first HELLO creates it from the template
		tmpl := c.Realms[0]
		tmpl.URI = ""
		c.Template, c.Realms = &tmpl, nil
	}
	c.Sess = sess
	var callers, callees []int
	for i := 0; i < n; i++ {
		if i%2 == 0 {
			callers = append(callers, i)
		} else {
			callees = append(callees, i)
		}
	}
	g := &mixGen{rpc: newRPCGen(n, false, "deterministic", callers, callees), nsess: n, profile: "C10", alive: make([]bool, n), ps: &psGen{nsess: n}}
	ops := rapid.SliceOfN(rapid.Custom(func(t *rapid.T) Op {
		var op Op
		if pct(t, 50, "rpc") {
			op = g.rpc.op(t)
		} else {
			op = g.ps.op(t)
		}
		// concentrate on the URIs the rules talk about
		if op.URI != "" && (op.K == "publish" || op.K == "call" || op.K == "subscribe" || op.K == "register") && pct(t, 70, "ruleuri") {
			if v, _ := modelValidURI(op.URI, false, op.Mode); v {
				op.URI = pick(t, uris, "opuri")
				if op.K == "subscribe" || op.K == "register" {
					op.Mode = ""
				}
			}
		}
		return op
	}), minHistory(t, 30), 30).Draw(t, "ops")
	c.Ops = noOrderDependentTestaments(ops)
	return c
}

func msgTypeName(k string) string {
	switch k {
	case "publish":
		return "PUBLISH"
	case "subscribe":
		return "SUBSCRIBE"
	case "unsubscribe":
		return "UNSUBSCRIBE"
	case "register":
		return "REGISTER"
	case "unregister":
		return "UNREGISTER"
	case "call", "meta":
		return "CALL"
	case "cancel":
		return "CANCEL"
	case "yield":
		return "YIELD"
	case "error":
		return "ERROR"
	case "goodbye":
		return "GOODBYE"
	}
	return ""
}

func sessAuthID(s *SessCfg) string {
	for _, kv := range s.Hello {
		if kv.K == "authid" {
			return kv.V.S
		}
	}
	return ""
}

func execC10(t *testing.T, c *Case, trace bool) Verdict {
	v := Verdict{Kind: "ok", Prop: "C10"}
	var rc RealmCfg
	if len(c.Realms) > 0 {
		rc = c.Realms[0]
	} else {
		rc = *c.Template
		v.Stats.Label("realm_from_template")
	}
	table := rc.Authz
	exempt := func(s int) bool {
		tr := c.Sess[s].Transport
		return (tr == "" || tr == "local") && !rc.RequireLocalAuthz
	}
	// decisions are a function of the op alone
	type dec struct {
		act    string
		newURI string
	}
	decs := make([]dec, len(c.Ops))
	denied, rewritten := map[string]bool{}, map[string]bool{}
	scribble := false
	for i := range c.Ops {
		op := &c.Ops[i]
		mt := msgTypeName(op.K)
		if mt == "" || op.S < 0 || op.S >= len(c.Sess) || exempt(op.S) {
			continue
		}
		r := table.decide(mt, op.URI, sessAuthID(&c.Sess[op.S]))
		if r == nil {
			continue
		}
		decs[i] = dec{r.Act, r.NewURI}
		switch r.Act {
		case "deny", "fail":
			denied[mt] = true
		case "rewrite":
			rewritten[mt] = true
		case "scribble":
			scribble = true
		}
	}
	// run A
	ea := NewEngine(c)
	ea.KeepTrace = trace
	ra := &recordOracle{}
	var snapA, snapB map[wamp.URI]router.VerifSizes
	raHook := &snapOracle{rec: ra, snap: &snapA}
	if viol := ea.Run(raHook); viol != nil {
		return Verdict{Kind: "violation", Prop: "C10", Reason: "run A failed: " + viol.Reason}
	}
	stats := ea.authzStats
	// build B
	cb := *c
	cb.Realms = append([]RealmCfg(nil), c.Realms...)
	if len(cb.Realms) > 0 {
		cb.Realms[0].Authz = nil
	} else {
		tb := *c.Template
		tb.Authz = nil
		cb.Template = &tb
	}
	cb.Ops = append([]Op(nil), c.Ops...)
	for i := range cb.Ops {
		switch decs[i].act {
		case "deny", "fail":
			cb.Ops[i] = Op{K: "skip", S: c.Ops[i].S, Mode: c.Ops[i].K, URI: c.Ops[i].URI}
			if c.Ops[i].K == "call" && c.Ops[i].Ref != "" {
				cb.Ops[i].Mode = "chunk" // a further chunk of a call uses that call's request id
			}
		case "rewrite":
			cb.Ops[i].URI = decs[i].newURI
		}
	}
	eb := NewEngine(&cb)
	eb.KeepTrace = trace
	rb := &recordOracle{}
	rbHook := &snapOracle{rec: rb, snap: &snapB}
	if viol := eb.Run(rbHook); viol != nil {
		return Verdict{Kind: "violation", Prop: "C10", Reason: "run B failed: " + viol.Reason}
	}
	if trace {
		v.Trace = append(append([]string{"=== run A (with authorizer)"}, ea.Trace...), append([]string{"=== run B (filtered history, no authorizer)"}, eb.Trace...)...)
	}
	fail := func(format string, a ...any) Verdict {
		return Verdict{Kind: "violation", Prop: "C10", Reason: fmt.Sprintf(format, a...), Trace: v.Trace}
	}
	// never consulted: meta session, exempt sessions
	if stats != nil {
		if stats.Meta > 0 {
			return fail("the Authorizer was consulted %d times for the realm's meta session", stats.Meta)
		}
		if !rc.RequireLocalAuthz {
			for id, n := range stats.ByAuthID {
				if strings.HasPrefix(id, "x") && n > 0 {
					return fail("the Authorizer was consulted %d times for in-process session %q although local authorization is not required", n, id)
				}
			}
		}
	}
	// remove the authorization errors from A, checking each denied request got exactly one
	// map step index: steps align one-to-one between A and B (same number of ops and sessions)
	if len(ra.steps) != len(rb.steps) {
		return fail("runs A and B have %d and %d steps", len(ra.steps), len(rb.steps))
	}
	nj := 0
	for _, s := range c.Sess {
		if !s.NoJoin {
			nj++
		}
	}
	for i := range c.Ops {
		d := decs[i]
		if d.act != "deny" && d.act != "fail" {
			continue
		}
		op := &c.Ops[i]
		si := nj + i
		if si >= len(ra.stepOps) {
			continue
		}
		// find the sent message of this op in A to learn its request id
		var req wamp.ID
		var mtype wamp.MessageType
		found := false
		ack := false
		for _, sr := range ra.sent[si] {
			if sr.Op == i {
				found = true
				mtype = sr.Msg.MessageType()
				switch m := sr.Msg.(type) {
				case *wamp.Publish:
					req = m.Request
					ack, _ = m.Options["acknowledge"].(bool)
				case *wamp.Subscribe:
					req = m.Request
				case *wamp.Unsubscribe:
					req = m.Request
				case *wamp.Register:
					req = m.Request
				case *wamp.Unregister:
					req = m.Request
				case *wamp.Call:
					req = m.Request
				case *wamp.Cancel:
					req = m.Request
				case *wamp.Yield:
					req = m.Request
				case *wamp.Error:
					req = m.Request
				}
			}
		}
		if !found {
			continue // session already gone: nothing was sent
		}
		wantURI := wamp.ErrNotAuthorized
		if d.act == "fail" {
			wantURI = wamp.ErrAuthorizationFailed
		}
		msgs := ra.steps[si][op.S]
		kept := msgs[:0:0]
		nerr := 0
		for _, m := range msgs {
			if er, ok := m.(*wamp.Error); ok && er.Type == mtype && er.Request == req && er.Error == wantURI {
				nerr++
				continue
			}
			kept = append(kept, m)
		}
		want := 1
		if mtype == wamp.PUBLISH && !ack {
			want = 0
		}
		if mtype == wamp.ERROR || mtype == wamp.GOODBYE {
			// not requests: the statement does not say how their refusal is
			// reported; whatever is, is taken out of the comparison
			kept = kept[:0]
			for _, m := range msgs {
				if er, ok := m.(*wamp.Error); ok && er.Type == mtype && er.Error == wantURI {
					continue
				}
				kept = append(kept, m)
			}
			want = nerr
		}
		if nerr != want {
			return fail("denied %s req=%d of session %d (%s) was answered with %d ERROR{%s} messages, expected %d; session received %s", mtype, req, op.S, d.act, nerr, wantURI, want, recvString(msgs))
		}
		ra.steps[si][op.S] = kept
		v.Stats.Label("denied:" + mtype.String())
	}
	if !scribble {
		la, lb := canonTrace(ra.steps, len(c.Sess)), canonTrace(rb.steps, len(c.Sess))
		if d := firstDiff(la, lb); d != "" {
			return fail("with the Authorizer the router behaves differently from the filtered/rewritten history without one: %s", d)
		}
		if snapA != nil && snapB != nil {
			for uri, a := range snapA {
				if b, ok := snapB[uri]; ok && a != b {
					return fail("router tables differ at the end: with authorizer %+v, filtered history %+v", a, b)
				}
			}
		}
		v.Stats.Label("compared")
	} else {
		v.Stats.Label("scribble_robustness_only")
	}
	for k := range rewritten {
		v.Stats.Label("rewritten:" + k)
	}
	for d := range denied {
		for r := range rewritten {
			if d != r {
				v.Stats.NonTrivial = true
			}
		}
	}
	return v
}

// snapOracle records steps and takes the H1 snapshot at the settle step.
type snapOracle struct {
	baseOracle
	rec  *recordOracle
	snap *map[wamp.URI]router.VerifSizes
}

func (s *snapOracle) OnStep(e *Engine, st *StepRec) *Violation {
	if st.Phase == "settle" {
		*s.snap = router.VerifSnapshot(e.R)
		for uri, sz := range *s.snap {
			sz.HistoryEntries = 0
			(*s.snap)[uri] = sz
		}
	}
	return s.rec.OnStep(e, st)
}
