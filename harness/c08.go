package harness

// C08 — per-peer ordering guarantees hold under concurrency.
// Own executor: every session is an actor goroutine with a script; all actors
// run concurrently inside the bubble under the real Go scheduler; afterwards
// the order in which each peer read its messages is checked against the
// ordering invariants.

import (
	"fmt"
	"sort"
	"sync"
	"testing"
	"time"

	"github.com/gammazero/nexus/v3/wamp"
	"pgregory.net/rapid"
)

func init() {
	register(&Property{
		ID: "C08",
		Rule: "rapid-generated concurrent workloads: 3-7 sessions (in-process / rawsocket / websocket, GOMAXPROCS 1/2/4/16), each an actor goroutine executing a script of bursts - publish k numbered events to one of 2 topics, subscribe / unsubscribe (exact, prefix, wildcard), " +
			"register / unregister, call a procedure k times with receive_progress - while callee actors answer every INVOCATION with numbered progressive results and a final one; all actors run at once, each case 3 times. " +
			"Oracle over the order in which each peer read its messages: per (publisher, topic, subscription) sequence numbers strictly increase; invocations of one caller arrive at one callee in call order; per call, progressive results arrive in yield order and before the final reply, nothing after it; " +
			"SUBSCRIBED precedes the first EVENT of its subscription and no EVENT follows UNSUBSCRIBED until the next SUBSCRIBED; the same for REGISTERED / INVOCATION / UNREGISTERED. Non-trivial = >=2 concurrent producers towards one receiver and >=1 subscribe/unsubscribe or register/unregister during traffic; distinct = case hash",
		Gen:             genC08,
		Exec:            execC08,
		LivenessClaimed: true,
		ParRuns:         3,
		Assumptions: []string{
			"interleavings are sampled by the Go scheduler; queues are large so that nothing is dropped (loss is not an ordering error)",
			"scripts carry the par flag so that every case is executed several times",
		},
	})
}

// script op kinds: pub sub unsub reg unreg call ; N = burst size ; URI = topic/procedure ; Mode = match
func genC08(t *rapid.T) *Case {
	c := &Case{Realms: []RealmCfg{{URI: "r1", Anonymous: true}}}
	c.GMP = pick(t, []int{1, 2, 4, 16, 0}, "gmp")
	n := 3 + uni(t, 5, "nsess")
	for i := 0; i < n; i++ {
		s := SessCfg{Realm: "r1", Roles: fullRoles(), QSize: 8192}
		if pct(t, 40, "remote") {
			s.Transport = pick(t, remoteTransports, "tr")
		}
		c.Sess = append(c.Sess, s)
	}
	topics := []string{"t.a", "t.b"}
	procs := []string{"p.a", "p.b"}
	// every session gets a script; ops are stored flat with S = actor
	for s := 0; s < n; s++ {
		k := 1 + uni(t, 6, "nscript")
		for i := 0; i < k; i++ {
			var op Op
			switch x := uni(t, 100, "k"); {
			case x < 30:
				op = Op{K: "pub", URI: pick(t, topics, "topic"), N: 1 + uni(t, 12, "burst")}
				if pct(t, 35, "filtered") {
					op.Mode = "filtered"
				}
			case x < 48:
				op = Op{K: "sub", URI: pick(t, []string{"t.a", "t.b", "t", "t."}, "st"), Mode: ""}
				switch op.URI {
				case "t":
					op.Mode = "prefix"
				case "t.":
					op.Mode = "wildcard"
				}
			case x < 58:
				op = Op{K: "unsub", N: uni(t, 3, "which")}
			case x < 72:
				op = Op{K: "reg", URI: pick(t, procs, "proc")}
				if pct(t, 35, "disclose") {
					op.Mode = "disclose"
				}
			case x < 80:
				op = Op{K: "unreg", N: uni(t, 2, "whichreg")}
			case x < 88:
				// meta procedures are served by the realm's meta session, whose messages take
				// the same paths through broker and dealer as everybody else's
				op = Op{K: "meta", URI: pick(t, []string{"wamp.session.count", "wamp.session.list", "wamp.registration.list", "wamp.subscription.list"}, "mproc"), N: 1 + uni(t, 6, "nmeta")}
			default:
				op = Op{K: "call", URI: pick(t, procs, "cproc"), N: 1 + uni(t, 8, "ncalls")}
			}
			op.S = s
			op.Par = true
			c.Ops = append(c.Ops, op)
		}
	}
	c.P = map[string]V{"progress": VInt(uni(t, 4, "nprogress"))}
	return c
}

type c08Actor struct {
	idx   int
	sess  *SimSess
	mu    sync.Mutex
	log   []wamp.Message // everything read, in order
	closed bool
	subs  []wamp.ID // subscription ids acknowledged to this actor's own requests, in order
	regs  []wamp.ID
	pendingSub map[wamp.ID]bool
	pendingReg map[wamp.ID]bool
	metaReqs   []wamp.ID
}

func (a *c08Actor) snapshot() []wamp.Message {
	a.mu.Lock()
	defer a.mu.Unlock()
	return append([]wamp.Message(nil), a.log...)
}

func execC08(t *testing.T, c *Case, trace bool) Verdict { return execActors(c, trace, false) }

// execActors runs the concurrent actor workload. With realtime set it runs on
// the real clock outside a bubble and only answers whether the router still
// serves an uninvolved session and shuts down afterwards (realtime.go).
func execActors(c *Case, trace, realtime bool) Verdict {
	v := Verdict{Kind: "ok", Prop: "C08"}
	fail := func(format string, a ...any) Verdict {
		return Verdict{Kind: "violation", Prop: "C08", Reason: fmt.Sprintf(format, a...), Trace: v.Trace}
	}
	e := NewEngine(c)
	e.Realtime = realtime
	if err := e.Start(); err != nil {
		return Verdict{Kind: "inconclusive", Reason: err.Error()}
	}
	nprog := c.P["progress"].Go().(int)
	actors := make([]*c08Actor, len(e.Sess))
	// join sequentially
	for i, s := range e.Sess {
		e.startSession(s)
		e.queue(s, helloFor(&s.Cfg), -1)
		e.quiesce()
		if realtime {
			time.Sleep(50 * time.Millisecond)
		}
		msgs, _ := s.lk.drain()
		ok := false
		for _, m := range msgs {
			if w, isW := m.(*wamp.Welcome); isW {
				s.SID = w.ID
				ok = true
			}
		}
		if !ok {
			e.Abandon()
			return Verdict{Kind: "inconclusive", Reason: fmt.Sprintf("session %d could not join", i)}
		}
		actors[i] = &c08Actor{idx: i, sess: s, pendingSub: map[wamp.ID]bool{}, pendingReg: map[wamp.ID]bool{}}
	}
	quit := make(chan struct{})
	var readers sync.WaitGroup
	// reader / reactor per session
	for _, a := range actors {
		a := a
		readers.Add(1)
		go func() {
			defer readers.Done()
			for {
				msgs, closed := a.sess.lk.drain()
				for _, m := range msgs {
					a.mu.Lock()
					a.log = append(a.log, m)
					switch x := m.(type) {
					case *wamp.Subscribed:
						if a.pendingSub[x.Request] {
							a.subs = append(a.subs, x.Subscription)
						}
					case *wamp.Registered:
						if a.pendingReg[x.Request] {
							a.regs = append(a.regs, x.Registration)
						}
					}
					a.mu.Unlock()
					if inv, ok := m.(*wamp.Invocation); ok {
						// answer at once: numbered progressive results, then the final one
						wantsProgress, _ := inv.Details["receive_progress"].(bool)
						if wantsProgress {
							for p := 1; p <= nprog; p++ {
								e.queue(a.sess, &wamp.Yield{Request: inv.Request, Options: wamp.Dict{"progress": true}, Arguments: wamp.List{a.idx, p}}, -1)
							}
						}
						e.queue(a.sess, &wamp.Yield{Request: inv.Request, Options: wamp.Dict{}, Arguments: wamp.List{a.idx, 0}}, -1)
					}
				}
				if closed {
					a.mu.Lock()
					a.closed = true
					a.mu.Unlock()
					return
				}
				tm := time.NewTimer(time.Millisecond)
				select {
				case <-quit:
					tm.Stop()
					return
				case <-tm.C:
				}
			}
		}()
	}
	// scripts
	scripts := map[int][]Op{}
	for _, op := range c.Ops {
		scripts[op.S] = append(scripts[op.S], op)
	}
	var wg sync.WaitGroup
	for _, a := range actors {
		a := a
		wg.Add(1)
		go func() {
			defer wg.Done()
			s := a.sess
			pubSeq := map[string]int{}
			callSeq := map[string]int{}
			for _, op := range scripts[a.idx] {
				switch op.K {
				case "pub":
					for i := 0; i < op.N; i++ {
						pubSeq[op.URI]++
						opts := wamp.Dict{"exclude_me": false}
						if op.Mode == "filtered" {
							// a receiver restriction: the broker evaluates it per subscriber
							opts["exclude"] = wamp.List{e.Sess[(a.idx+1)%len(e.Sess)].SID}
							opts["eligible_authrole"] = wamp.List{"trusted", "anonymous"}
						}
						e.queue(s, &wamp.Publish{Request: s.NextReq(), Options: opts, Topic: wamp.URI(op.URI), Arguments: wamp.List{a.idx, op.URI, pubSeq[op.URI]}}, -1)
					}
				case "sub":
					req := s.NextReq()
					a.mu.Lock()
					a.pendingSub[req] = true
					a.mu.Unlock()
					opts := wamp.Dict{}
					if op.Mode != "" {
						opts["match"] = op.Mode
					}
					e.queue(s, &wamp.Subscribe{Request: req, Options: opts, Topic: wamp.URI(op.URI)}, -1)
				case "unsub", "unreg":
					// needs an id acknowledged earlier: wait (virtual time) until one is known
					var id wamp.ID
					for tries := 0; tries < 200 && id == 0; tries++ {
						a.mu.Lock()
						l := a.subs
						if op.K == "unreg" {
							l = a.regs
						}
						if len(l) > 0 {
							id = l[op.N%len(l)]
						}
						a.mu.Unlock()
						if id == 0 {
							time.Sleep(time.Millisecond)
						}
					}
					if id == 0 {
						continue
					}
					if op.K == "unsub" {
						e.queue(s, &wamp.Unsubscribe{Request: s.NextReq(), Subscription: id}, -1)
					} else {
						e.queue(s, &wamp.Unregister{Request: s.NextReq(), Registration: id}, -1)
					}
				case "reg":
					req := s.NextReq()
					a.mu.Lock()
					a.pendingReg[req] = true
					a.mu.Unlock()
					ropts := wamp.Dict{"invoke": "first"}
					if op.Mode == "disclose" {
						ropts["disclose_caller"] = true
					}
					e.queue(s, &wamp.Register{Request: req, Options: ropts, Procedure: wamp.URI(op.URI)}, -1)
				case "meta":
					for i := 0; i < op.N; i++ {
						req := s.NextReq()
						a.mu.Lock()
						a.metaReqs = append(a.metaReqs, req)
						a.mu.Unlock()
						e.queue(s, &wamp.Call{Request: req, Options: wamp.Dict{}, Procedure: wamp.URI(op.URI)}, -1)
					}
				case "call":
					for i := 0; i < op.N; i++ {
						callSeq[op.URI]++
						e.queue(s, &wamp.Call{Request: s.NextReq(), Options: wamp.Dict{"receive_progress": true}, Procedure: wamp.URI(op.URI), Arguments: wamp.List{a.idx, op.URI, callSeq[op.URI]}}, -1)
					}
				}
			}
		}()
	}
	wg.Wait()
	// let everything drain: senders, router, readers
	for i := 0; i < 50; i++ {
		time.Sleep(10 * time.Millisecond)
	}
	if realtime {
		time.Sleep(time.Second)
		for i := range c.Realms {
			if _, err := e.Probe(c.Realms[i].URI); err != nil && err != errProbeSkipped {
				close(quit)
				return Verdict{Kind: "hang", Prop: c.Prop, Reason: "confirmed on the real clock, outside the test bubble: " + err.Error()}
			}
		}
		close(quit)
		readers.Wait()
		closed := make(chan struct{})
		go func() { e.R.Close(); close(closed) }()
		select {
		case <-closed:
			return Verdict{Kind: "ok", Prop: c.Prop}
		case <-time.After(90 * time.Second):
			return Verdict{Kind: "hang", Prop: c.Prop, Reason: "confirmed on the real clock, outside the test bubble: Router.Close did not return within 90 s"}
		}
	}
	close(quit)
	readers.Wait()
	// final drain on the main goroutine
	for _, a := range actors {
		msgs, _ := a.sess.lk.drain()
		a.log = append(a.log, msgs...)
	}
	// ---- invariants ----
	intOf := func(x any) int { n, _ := wamp.AsInt64(x); return int(n) }
	producers := map[int]map[int]bool{} // receiver -> set of producers
	for _, a := range actors {
		lastEv := map[string]int{}  // sub|publisher|topic -> last seq
		lastInv := map[string]int{} // caller|proc -> last seq
		subLive := map[wamp.ID]int{} // sub id -> 1 acknowledged-live, 2 unsubscribed
		regLive := map[wamp.ID]int{}
		unsubReq := map[wamp.ID]wamp.ID{} // request -> sub id (from what this actor sent)
		unregReq := map[wamp.ID]wamp.ID{}
		_ = unsubReq
		_ = unregReq
		type callState struct {
			lastP int
			final bool
		}
		calls := map[wamp.ID]*callState{}
		for i, m := range a.log {
			switch x := m.(type) {
			case *wamp.Subscribed:
				subLive[x.Subscription] = 1
			case *wamp.Registered:
				regLive[x.Registration] = 1
			case *wamp.Event:
				if len(x.Arguments) < 3 {
					continue
				}
				if subLive[x.Subscription] != 1 {
					why := "before its SUBSCRIBED"
					if subLive[x.Subscription] == 2 {
						why = "after UNSUBSCRIBED"
					}
					return fail("session %d read EVENT for subscription %d %s (message %d of its inbox): %s", a.idx, x.Subscription, why, i, MsgString(m))
				}
				p, tp, seq := intOf(x.Arguments[0]), fmt.Sprint(x.Arguments[1]), intOf(x.Arguments[2])
				key := fmt.Sprintf("%d|%d|%s", x.Subscription, p, tp)
				if seq <= lastEv[key] {
					return fail("session %d read events of publisher %d on topic %s (subscription %d) out of publication order: #%d after #%d", a.idx, p, tp, x.Subscription, seq, lastEv[key])
				}
				lastEv[key] = seq
				if producers[a.idx] == nil {
					producers[a.idx] = map[int]bool{}
				}
				producers[a.idx][p] = true
			case *wamp.Invocation:
				if regLive[x.Registration] != 1 {
					why := "before its REGISTERED"
					if regLive[x.Registration] == 2 {
						why = "after UNREGISTERED"
					}
					return fail("session %d read INVOCATION for registration %d %s: %s", a.idx, x.Registration, why, MsgString(m))
				}
				if len(x.Arguments) < 3 {
					continue
				}
				caller, proc, seq := intOf(x.Arguments[0]), fmt.Sprint(x.Arguments[1]), intOf(x.Arguments[2])
				key := fmt.Sprintf("%d|%s", caller, proc)
				if seq <= lastInv[key] {
					return fail("callee session %d read invocations of caller %d for %s out of call order: #%d after #%d", a.idx, caller, proc, seq, lastInv[key])
				}
				lastInv[key] = seq
				if producers[a.idx] == nil {
					producers[a.idx] = map[int]bool{}
				}
				producers[a.idx][100+caller] = true
			case *wamp.Result:
				cs := calls[x.Request]
				if cs == nil {
					cs = &callState{}
					calls[x.Request] = cs
				}
				if cs.final {
					return fail("caller session %d read a RESULT for request %d after its final reply: %s", a.idx, x.Request, MsgString(m))
				}
				if prog, _ := x.Details["progress"].(bool); prog {
					p := 0
					if len(x.Arguments) >= 2 {
						p = intOf(x.Arguments[1])
					}
					if p <= cs.lastP {
						return fail("caller session %d read progressive results of request %d out of yield order: #%d after #%d", a.idx, x.Request, p, cs.lastP)
					}
					cs.lastP = p
				} else {
					cs.final = true
				}
			case *wamp.Error:
				if x.Type == wamp.CALL {
					cs := calls[x.Request]
					if cs == nil {
						cs = &callState{}
						calls[x.Request] = cs
					}
					if cs.final {
						return fail("caller session %d read an ERROR for request %d after its final reply", a.idx, x.Request)
					}
					cs.final = true
				}
			case *wamp.Unsubscribed, *wamp.Unregistered:
				// which id: the actor's unsubscribe requests are in its sent log; resolve through the engine's record
			}
			// resolve UNSUBSCRIBED / UNREGISTERED via the request ids this session used
			switch x := m.(type) {
			case *wamp.Unsubscribed:
				if id, ok := a.sess.unsubByReq[x.Request]; ok {
					subLive[id] = 2
				}
			case *wamp.Unregistered:
				if id, ok := a.sess.unregByReq[x.Request]; ok {
					regLive[id] = 2
				}
			}
		}
	}
	// every meta procedure call was answered (the meta session is never the one that is stuck)
	for _, a := range actors {
		answered := map[wamp.ID]bool{}
		for _, m := range a.log {
			switch x := m.(type) {
			case *wamp.Result:
				answered[x.Request] = true
			case *wamp.Error:
				answered[x.Request] = true
			}
		}
		for _, req := range a.metaReqs {
			if !answered[req] {
				return fail("session %d never got an answer to its meta procedure call (request %d) although every session kept reading", a.idx, req)
			}
		}
		if len(a.metaReqs) > 0 {
			v.Stats.Label("meta_calls_answered")
		}
	}
	multi := false
	for _, ps := range producers {
		if len(ps) >= 2 {
			multi = true
		}
	}
	churn := false
	for _, op := range c.Ops {
		if op.K == "sub" || op.K == "unsub" || op.K == "reg" || op.K == "unreg" {
			churn = true
		}
	}
	v.Stats.NonTrivial = multi && churn
	nmsgs := 0
	for _, a := range actors {
		nmsgs += len(a.log)
	}
	if v.Stats.Labels == nil {
		v.Stats.Labels = map[string]int{}
	}
	v.Stats.Labels["messages_read"] = nmsgs
	if multi {
		v.Stats.Label("multi_producer_receiver")
	}
	if trace {
		var keys []int
		for i := range actors {
			keys = append(keys, i)
		}
		sort.Ints(keys)
		for _, i := range keys {
			for _, m := range actors[i].log {
				v.Trace = append(v.Trace, fmt.Sprintf("s%d <- %s", i, MsgString(m)))
			}
		}
	}
	e.Abandon()
	return v
}
