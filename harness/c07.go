package harness

// C07 — an unresponsive client never blocks others; the router never deadlocks.

import (
	"fmt"

	"github.com/gammazero/nexus/v3/wamp"
	"testing"
	"time"

	"pgregory.net/rapid"
)

func init() {
	register(&Property{
		ID: "C07",
		Rule: "rapid-generated histories with 3-6 sessions whose outbound queues are 1, 2, 8 or 64 messages (in-process, rawsocket and websocket); one or two of them stop reading at generated points and may resume; the others publish bursts larger than those queues to topics the silent sessions subscribe to, " +
			"call procedures of silent callees, yield towards silent callers, use the meta API, kill silent and live sessions, leave; a closing scenario makes a callee yield to a silent caller whose queue is full and then issue a request of its own. " +
			"Oracle: the broker/dealer/meta reference models demand every reply, EVENT and INVOCATION for every session that reads, in the step (virtual instant) of the request; a session that reads again finds exactly the first <queue size> messages routed to it while silent, in order, nothing else " +
			"(queue size + 1 for serialised transports, whose send handler holds one message); calls whose callee or caller is silent are accepted either way except that the yielding callee must be served again within two result-retry periods and every request of a reading session must have been accepted by the router at the end; " +
			"synctest deadlock, leak and real-time hang verdicts are violations. One case in eight is instead a concurrent workload (the C08 rig: every session an actor goroutine issuing publish / subscribe / register / unregister / call / meta-procedure bursts at once, 3 runs), judged for deadlock and unanswered requests. Non-trivial = a silent session whose queue overflowed while >=2 other sessions had traffic; distinct = case hash",
		Gen: func(t *rapid.T) *Case {
			if pct(t, 12, "actors") {
				// deadlock freedom under true concurrency: the C08 workload (every session an
				// actor goroutine, meta procedure calls included), judged for C07
				c := genC08(t)
				c.Engine = "actors"
				return c
			}
			return genC07(t)
		},
		Exec: func(t *testing.T, c *Case, trace bool) Verdict {
			if c.Engine == "actors" {
				v := execC08(t, c, trace)
				v.Prop = "C07"
				if v.Kind == "ok" {
					v.Stats.Label("concurrent_actor_case")
				}
				return v
			}
			return runRouterEngine(registry["C07"], c, trace)
		},
		ParRuns: 3,
		NewOracle: func(c *Case) Oracle {
			var b *brokerPart
			var d *dealerPart
			o := newComposite(c, "C07", func(w *World) []Part {
				b = newBrokerPart(w)
				d = newDealerPart(w)
				m := newMetaPart(w, b, d)
				b.metaAsserted = true
				return []Part{b, d, m}
			})
			o.afterStep = func(e *Engine, st *StepRec) *Violation {
				// the one bounded exception: a session handler may be held back while it
				// yields to a caller that does not read, for at most ~two retry periods
				for _, s := range e.Sess {
					if s.lk == nil || s.Dropped || o.w.sess[s.Idx].ended || !o.w.sess[s.Idx].joined {
						continue
					}
					if since, waiting := s.OldestUndelivered(); waiting && st.T-since > 121*time.Second {
						return &Violation{Prop: "C07", Step: st.N, Reason: fmt.Sprintf("a message of session %d has been waiting for %v of virtual time to be accepted by the router: its session handler is held back longer than the result-retry period allows", s.Idx, st.T-since)}
					}
				}
				if pv, ok := c.P["proghold_callee"]; ok {
					callee := pv.Go().(int)
					cs := e.Sess[callee]
					alive := cs.lk != nil && !cs.Dropped && o.w.sess[callee].live()
					for _, oi := range st.OpIdx {
						if oi == c.P["proghold_expire_op"].Go().(int) && alive && o.w.sess[callee].has("callee", "call_canceling") && len(cs.Invs) > 0 {
							// the retry period is over: the call is cancelled and the callee is told
							got := false
							for _, m := range st.Recv[callee] {
								if _, isInt := m.(*wamp.Interrupt); isInt {
									got = true
								}
							}
							if !got && o.st.Labels["progressive_result_held_for_full_caller_queue"] > 0 {
								return &Violation{Prop: "C07", Step: st.N, Reason: fmt.Sprintf("a progressive result of session %d could not be handed to a caller that does not read; the result-retry period is over but the call was not cancelled: the callee received no INTERRUPT (received %s)", callee, recvString(st.Recv[callee]))}
							}
							o.st.Label("progressive_hold_expired")
						}
						if oi == c.P["proghold_after_op"].Go().(int) && alive && o.st.Labels["progressive_result_held_for_full_caller_queue"] > 0 {
							if n := cs.Undelivered(); n > 0 {
								return &Violation{Prop: "C07", Step: st.N, Reason: fmt.Sprintf("after its call was cancelled at the end of the result-retry period, session %d sent one more progressive result and is held back again: %d of its messages are not accepted", callee, n)}
							}
							o.st.Label("progressive_hold_not_repeated")
						}
					}
				}
				if st.Phase != "settle" {
					return nil
				}
				for _, s := range e.Sess {
					if s.lk == nil || s.Dropped || o.w.sess[s.Idx].ended || !o.w.sess[s.Idx].joined {
						continue
					}
					if n := s.Undelivered(); n > 0 {
						return &Violation{Prop: "C07", Step: st.N, Reason: fmt.Sprintf("24 virtual hours after the last operation the router has still not accepted %d message(s) of session %d: its session handler is blocked", n, s.Idx)}
					}
				}
				return nil
			}
			o.finishStats = func(st *CaseStats) {
				busy := map[int]bool{}
				for _, op := range c.Ops {
					if op.K == "publish" || op.K == "call" || op.K == "subscribe" {
						busy[op.S] = true
					}
				}
				st.NonTrivial = st.Labels["stalled_queue_overflow"] > 0 && len(busy) >= 2
			}
			return o
		},
		LivenessClaimed: true,
		Assumptions: []string{
			"the result-retry loop doubles its delay, so the last retry can overshoot the one-minute period: the hold is bounded by two periods here",
			"a silent session calling a meta procedure holds back the router's meta session (a callee like any other) for the same bounded period; the generator keeps silent sessions from calling meta procedures so that everybody else's latency stays exactly zero",
			"calls whose callee or caller is silent are not judged by the exact model (INVOCATION may or may not fit the queue); publications are",
		},
	})
}

func genC07(t *rapid.T) *Case {
	c := &Case{Realms: []RealmCfg{{URI: "r1", Anonymous: true, MetaKill: true}}}
	n := 3 + uni(t, 4, "nsess")
	nstall := 1 + uni(t, 2, "nstall")
	for i := 0; i < n; i++ {
		s := SessCfg{Realm: "r1", Roles: fullRoles()}
		if pct(t, 40, "remote") {
			s.Transport = pick(t, remoteTransports, "tr")
		}
		if i >= nstall && i%2 == 1 {
			// callees are in-process: a callee held back while yielding to a silent
			// caller then stops sending, which the harness can observe exactly
			s.Transport = ""
		}
		if i < nstall {
			s.QSize = pick(t, []int{1, 2, 2, 8}, "q")
		} else if pct(t, 30, "smallq") {
			s.QSize = pick(t, []int{8, 64}, "q2")
		}
		c.Sess = append(c.Sess, s)
	}
	topics := []string{"a", "a.b", "b"}
	var silentTopic []string // first subscription of each session that will go silent
	var silentReg []int      // those of them that register a procedure
	// the sessions that will go silent subscribe and register first
	for i := 0; i < nstall; i++ {
		c.Ops = append(c.Ops, Op{K: "subscribe", S: i, URI: pick(t, topics, "st")})
		if pct(t, 50, "catchall") {
			c.Ops = append(c.Ops, Op{K: "subscribe", S: i, URI: "a", Mode: "prefix"})
		}
		silentTopic = append(silentTopic, c.Ops[len(c.Ops)-1-btoi(c.Ops[len(c.Ops)-1].Mode == "prefix")].URI)
		if pct(t, 60, "sreg") {
			c.Ops = append(c.Ops, Op{K: "register", S: i, URI: fmt.Sprintf("verif.silent%d", i)})
			silentReg = append(silentReg, i)
		}
	}
	// a reading subscriber to the same topics
	c.Ops = append(c.Ops, Op{K: "subscribe", S: n - 1, URI: "a", Mode: "prefix"})
	var callers, callees []int
	for i := nstall; i < n; i++ {
		if i%2 == 0 {
			callers = append(callers, i)
		} else {
			callees = append(callees, i)
		}
	}
	live := n - nstall
	g := &mixGen{rpc: newRPCGen(n, false, "C02", callers, callees), nsess: n, profile: "C18", alive: make([]bool, n), ps: &psGen{nsess: n}}
	chunks := rapid.SliceOfN(rapid.Custom(func(t *rapid.T) []Op {
		other := nstall + uni(t, live, "other")
		switch k := uni(t, 100, "k"); {
		case k < 14:
			return []Op{{K: "stall", S: uni(t, nstall, "ss")}}
		case k < 22:
			return []Op{{K: "resume", S: uni(t, nstall, "rs")}}
		case k < 50:
			// burst of publications
			nb := 1 + uni(t, 12, "burst")
			var out []Op
			for i := 0; i < nb; i++ {
				op := Op{K: "publish", S: other, URI: pick(t, topics, "bt"), Args: []V{VInt(i)}}
				if pct(t, 50, "ack") {
					op.Opts = []KV{{"acknowledge", VBool(true)}}
				}
				out = append(out, op)
			}
			return out
		case k < 58:
			return []Op{{K: "call", S: other, URI: fmt.Sprintf("verif.silent%d", uni(t, nstall, "sc")), Args: []V{VInt(1)}}}
		case k < 61 && len(silentReg) > 0:
			// a call pending at a silent callee whose queue is full is cancelled, or times out:
			// the INTERRUPT cannot be delivered, nobody else may notice
			s := pick(t, silentReg, "cs")
			call := Op{K: "call", S: other, URI: fmt.Sprintf("verif.silent%d", s), Args: []V{VInt(2)}}
			timeout := pct(t, 30, "calltimeout")
			if timeout {
				call.Opts = []KV{{"timeout", VInt(100)}}
			}
			var out []Op
			if pct(t, 50, "callfirst") {
				// the callee still reads when the call arrives and goes silent afterwards: its
				// queue is then known to be full when the cancel (or the timeout) comes
				out = []Op{{K: "resume", S: s}, call, {K: "stall", S: s}}
			} else {
				out = []Op{{K: "stall", S: s}, call}
			}
			for i := 0; i < c.Sess[s].QSize+3; i++ {
				out = append(out, Op{K: "publish", S: other, URI: silentTopic[s], Args: []V{VInt(i)}})
			}
			if timeout {
				out = append(out, Op{K: "advance", Ns: 200e6})
			} else {
				out = append(out, Op{K: "cancel", S: other, Ref: "call:-1:-1", Mode: pick(t, []string{"kill", "killnowait", "skip"}, "cmode")})
			}
			// and life goes on for the others
			return append(out, Op{K: "publish", S: other, URI: "b", Opts: []KV{{"acknowledge", VBool(true)}}}, Op{K: "meta", S: other, URI: "wamp.registration.list"})
		case k < 64:
			// a silent session sends something itself (it stopped reading, not writing)
			s := uni(t, nstall, "sw")
			return []Op{pick(t, []Op{{K: "publish", S: s, URI: "a.b", Opts: []KV{{"acknowledge", VBool(true)}}}, {K: "publish", S: s, URI: "b", Args: []V{VStr("from-silent")}}, {K: "unsubscribe", S: s, Ref: "sub:-1:1"}}, "sop")}
		case k < 70:
			return []Op{{K: "meta", S: other, URI: pick(t, []string{"wamp.session.count", "wamp.session.list", "wamp.subscription.list", "wamp.registration.list"}, "mp")}}
		case k < 74:
			return []Op{{K: "meta", S: other, URI: "wamp.session.kill", Args: []V{VRef(fmt.Sprintf("sid:%d", uni(t, n, "kt")))}}}
		case k < 78:
			return []Op{genAdvance(t)}
		default:
			for {
				op := g.op(t)
				if op.K == "advance" || op.S >= nstall && !(op.K == "meta" && op.URI == "wamp.session.kill_all") {
					return []Op{op}
				}
			}
		}
	}), minHistory(t, 18), 18).Draw(t, "ops")
	for _, ch := range chunks {
		c.Ops = append(c.Ops, ch...)
	}
	// closing scenario: a callee yields to a silent caller whose queue is full
	if pct(t, 40, "hold") && live >= 2 {
		silent := 0
		callee, other := nstall, nstall+1
		if callee%2 == 0 {
			callee, other = nstall+1, nstall
		}
		q := c.Sess[silent].QSize
		c.Ops = append(c.Ops,
			Op{K: "resume", S: silent},
			Op{K: "register", S: callee, URI: "verif.hold"},
			Op{K: "subscribe", S: silent, URI: "verif.fill"},
			Op{K: "call", S: silent, URI: "verif.hold"},
			Op{K: "stall", S: silent})
		for i := 0; i < q+3; i++ {
			c.Ops = append(c.Ops, Op{K: "publish", S: other, URI: "verif.fill", Args: []V{VInt(i)}})
		}
		c.Ops = append(c.Ops,
			Op{K: "yield", S: callee, Ref: "inv:-1:99", Args: []V{VStr("late")}},
			Op{K: "subscribe", S: callee, URI: "verif.after"},
			Op{K: "advance", Ns: pick(t, []int64{1e9, 59e9, 60e9}, "h1")})
		if pct(t, 40, "holdresume") {
			// the caller was only momentarily slow: it reads again within the retry
			// period and must then get the result at the next retry
			c.Ops = append(c.Ops, Op{K: "resume", S: silent})
		}
		c.Ops = append(c.Ops,
			Op{K: "publish", S: other, URI: "verif.after", Opts: []KV{{"acknowledge", VBool(true)}}},
			Op{K: "advance", Ns: 121e9},
			Op{K: "publish", S: other, URI: "verif.after", Opts: []KV{{"acknowledge", VBool(true)}}})
	}
	if pct(t, 15, "proghold") && live >= 2 {
		// a callee streams progressive results to a caller that does not read: after the
		// retry period the call is cancelled (the callee is told), and a further
		// progressive result does not hold the callee back a second time
		silent := 0
		callee, other := nstall, nstall+1
		if callee%2 == 0 {
			callee, other = nstall+1, nstall
		}
		c.Sess[silent].Transport, c.Sess[callee].Transport = "", ""
		q := c.Sess[silent].QSize
		c.Ops = append(c.Ops,
			Op{K: "resume", S: silent},
			Op{K: "register", S: callee, URI: "verif.stream"},
			Op{K: "subscribe", S: silent, URI: "verif.fill3"},
			Op{K: "call", S: silent, URI: "verif.stream", Opts: []KV{{"receive_progress", VBool(true)}}},
			Op{K: "stall", S: silent})
		for i := 0; i < q+2; i++ {
			c.Ops = append(c.Ops, Op{K: "publish", S: other, URI: "verif.fill3", Args: []V{VInt(i)}})
		}
		mark := len(c.Ops)
		c.Ops = append(c.Ops,
			Op{K: "yield", S: callee, Ref: "inv:-1:-1", Args: []V{VStr("p1")}, Opts: []KV{{"progress", VBool(true)}}},
			Op{K: "advance", Ns: 70e9},
			Op{K: "yield", S: callee, Ref: "inv:-1:-1", Args: []V{VStr("p2")}, Opts: []KV{{"progress", VBool(true)}}},
			Op{K: "subscribe", S: callee, URI: "verif.after2"},
			Op{K: "publish", S: other, URI: "verif.after2", Opts: []KV{{"acknowledge", VBool(true)}}})
		if c.P == nil {
			c.P = map[string]V{}
		}
		c.P["proghold_callee"], c.P["proghold_expire_op"], c.P["proghold_after_op"] = VInt(callee), VInt(mark+1), VInt(mark+3)
	}
	return c
}

func btoi(b bool) int {
	if b {
		return 1
	}
	return 0
}
