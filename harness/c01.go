package harness

// C01 — Pub/Sub delivers each event to exactly the matching, eligible subscribers.
// Generator: sequential histories of join/subscribe/unsubscribe/publish/leave over
// a tiny overlapping URI alphabet. Oracle: reference broker model (this file),
// compared after every step with the exact multiset of messages every session
// received.

import (
	"fmt"
	"sort"
	"strings"

	"github.com/gammazero/nexus/v3/wamp"
	"pgregory.net/rapid"
)

func init() {
	register(&Property{
		ID: "C01",
		Rule: "rapid-generated sequential histories (2-6 sessions, <=40 ops: subscribe/unsubscribe/publish with option subsets/leave/late join) " +
			"against a reference broker model; non-trivial = a case containing a PUBLISH that matched >=2 subscriptions of different policies, " +
			"or whose filter/exclusion removed an otherwise-receiving session, or that followed an unsubscribe/departure from a matching subscription; " +
			"distinct = distinct case hash",
		Gen:       genC01,
		NewOracle: func(c *Case) Oracle { return newBrokerOracle(c, "C01") },
		Assumptions: []string{
			"sequential histories only: synctest.Wait() after every op, so outcomes are schedule independent",
			"payload values restricted to the WAMP data model (ints within ±2^53, finite floats, no binary)",
			"grey zones (DESIGN 3.6): UNSUBSCRIBE of a subscription held only by others may answer UNSUBSCRIBED or no_such_subscription; subscription id after re-creation may be new or reused",
		},
	})
}

// ---- generator ---------------------------------------------------------------

var c01Users = []UserCfg{{AuthID: "u1", Role: "r1"}, {AuthID: "u2", Role: "r2"}, {AuthID: "u3", Role: "r1"}}

func genPubSubSessions(t *rapid.T, realm string, requireLocalAuth bool, nmin, nmax int) []SessCfg {
	n := nmin + uni(t, nmax-nmin+1, "nsess")
	remoteIdx := -1
	if uni(t, 3, "hasRemote") == 0 {
		remoteIdx = uni(t, n-1+1, "remoteIdx")
	}
	out := make([]SessCfg, n)
	for i := range out {
		s := SessCfg{Realm: realm, Roles: fullRoles()}
		if i == remoteIdx {
			s.Transport = pick(t, remoteTransports, "transport")
		}
		user := pick(t, c01Users, "user")
		remote := s.Transport != ""
		if requireLocalAuth || remote {
			if remote && uni(t, 4, "anon") == 0 {
				// anonymous remote session: router assigns a random authid
			} else {
				s.AuthMeth = []string{"static"}
				s.Hello = append(s.Hello, KV{"authid", VStr(user.AuthID)})
			}
		} else if rapid.Bool().Draw(t, "hasAuthid") {
			s.Hello = append(s.Hello, KV{"authid", VStr(user.AuthID)})
		}
		if rapid.Bool().Draw(t, "hasOrg") {
			s.Hello = append(s.Hello, KV{"org", VStr(pick(t, []string{"x", "y"}, "org"))})
		}
		if rapid.Bool().Draw(t, "hasTeam") {
			s.Hello = append(s.Hello, KV{"team", VStr(pick(t, []string{"p", "q"}, "team"))})
		}
		if i > 1 && uni(t, 6, "late") == 0 {
			s.NoJoin = true
		}
		out[i] = s
	}
	return out
}

func genSessRefList(t *rapid.T, nsess int, label string) V {
	n := (1 + uni(t, 3, label+"n"))
	items := make([]V, 0, n)
	for i := 0; i < n; i++ {
		if uni(t, 8, label+"bogus") == 0 {
			items = append(items, VRef(fmt.Sprintf("bogus:%d", i)))
		} else {
			items = append(items, VRef(fmt.Sprintf("sid:%d", uni(t, nsess-1+1, label+"s"))))
		}
	}
	return VList(items...)
}

func genStrList(t *rapid.T, vals []string, label string) V {
	n := (1 + uni(t, 2, label+"n"))
	items := make([]V, n)
	for i := range items {
		items[i] = VStr(pick(t, vals, label))
	}
	return VList(items...)
}

func genPublishOpts(t *rapid.T, nsess int) []KV {
	var o []KV
	if uni(t, 10, "ack") < 7 {
		o = append(o, KV{"acknowledge", VBool(true)})
	} else if uni(t, 4, "ackfalse") == 0 {
		o = append(o, KV{"acknowledge", VBool(false)})
	}
	switch uni(t, 4, "exclme") {
	case 0:
		o = append(o, KV{"exclude_me", VBool(false)})
	case 1:
		o = append(o, KV{"exclude_me", VBool(true)})
	}
	if uni(t, 4, "hasExcl") == 0 {
		o = append(o, KV{"exclude", genSessRefList(t, nsess, "excl")})
	}
	if uni(t, 5, "hasElig") == 0 {
		o = append(o, KV{"eligible", genSessRefList(t, nsess, "elig")})
	}
	if uni(t, 7, "f1") == 0 {
		o = append(o, KV{"exclude_authid", genStrList(t, []string{"u1", "u2", "u3", "zz"}, "xa")})
	}
	if uni(t, 7, "f2") == 0 {
		o = append(o, KV{"eligible_authid", genStrList(t, []string{"u1", "u2", "u3", "zz"}, "ea")})
	}
	if uni(t, 7, "f3") == 0 {
		o = append(o, KV{"exclude_authrole", genStrList(t, []string{"r1", "r2", "trusted", "anonymous"}, "xr")})
	}
	if uni(t, 7, "f4") == 0 {
		o = append(o, KV{"eligible_authrole", genStrList(t, []string{"r1", "r2", "trusted", "anonymous"}, "er")})
	}
	if uni(t, 9, "f5") == 0 {
		o = append(o, KV{"exclude_org", genStrList(t, []string{"x", "y"}, "xo")})
	}
	if uni(t, 9, "f6") == 0 {
		o = append(o, KV{"eligible_team", genStrList(t, []string{"p", "q"}, "et")})
	}
	return o
}

func genPubSubOp(t *rapid.T, nsess int, strict bool) Op {
	s := uni(t, nsess-1+1, "s")
	k := uni(t, 100, "opk")
	switch {
	case k < 36:
		m := genMatch(t)
		op := Op{K: "subscribe", S: s, Mode: m}
		if uni(t, 100, "badsub") < 12 {
			op.URI = genInvalidURI(t, strict, m)
		} else {
			op.URI = genPattern(t, m)
		}
		return op
	case k < 46:
		who := -1
		if uni(t, 5, "other") == 0 {
			who = uni(t, nsess-1+1, "who")
		}
		ref := fmt.Sprintf("sub:%d:%d", who, uni(t, 6, "n"))
		if uni(t, 10, "bogus") == 0 {
			ref = "bogus:1"
		}
		return Op{K: "unsubscribe", S: s, Ref: ref}
	case k < 93:
		op := Op{K: "publish", S: s, Opts: genPublishOpts(t, nsess), Args: genArgs(t, valOpts{}), Kw: genKw(t, valOpts{})}
		if uni(t, 100, "badpub") < 8 {
			op.URI = genInvalidURI(t, strict, "")
		} else {
			op.URI = genTopic(t)
		}
		return op
	case k < 95:
		return Op{K: "goodbye", S: s}
	case k < 97:
		return Op{K: "drop", S: s}
	default:
		return Op{K: "join", S: s}
	}
}

func genC01(t *rapid.T) *Case {
	strict := rapid.Bool().Draw(t, "strict")
	rla := rapid.Bool().Draw(t, "requireLocalAuth")
	c := &Case{
		Realms: []RealmCfg{{URI: "r1", Strict: strict, Anonymous: true, RequireLocalAuth: rla, Auths: []string{"static"}, Users: c01Users}},
	}
	c.Sess = genPubSubSessions(t, "r1", rla, 2, 6)
	if rapid.Bool().Draw(t, "observer") {
		// catch-all observer: prefix "" subscription made right at the start.
		c.Ops = append(c.Ops, Op{K: "subscribe", S: 0, URI: "", Mode: "prefix"})
	}
	nsess := len(c.Sess)
	ops := rapid.SliceOfN(rapid.Custom(func(t *rapid.T) Op { return genPubSubOp(t, nsess, strict) }), 1, 40).Draw(t, "ops")
	c.Ops = append(c.Ops, ops...)
	return c
}

// ---- reference broker model ------------------------------------------------------

type mSub struct {
	id      wamp.ID
	topic   string
	class   string
	members map[int]bool
}

type mSess struct {
	joined bool
	ended  bool
	sid    wamp.ID
	attrs  map[string]string // string-valued session details
}

type brokerOracle struct {
	baseOracle
	prop   string
	c      *Case
	strict map[string]bool // realm -> strict
	sess   []*mSess
	subs   map[string]*mSub // key realm|class|topic
	byID   map[string]*mSub // realm|id
	// recently affected keys (for the non-triviality rule)
	touched map[string]bool
}

func newBrokerOracle(c *Case, prop string) *brokerOracle {
	o := &brokerOracle{prop: prop, c: c, strict: map[string]bool{}, subs: map[string]*mSub{}, byID: map[string]*mSub{}, touched: map[string]bool{}}
	for _, r := range c.Realms {
		o.strict[r.URI] = r.Strict
	}
	for range c.Sess {
		o.sess = append(o.sess, &mSess{attrs: map[string]string{}})
	}
	return o
}

func (o *brokerOracle) fail(st *StepRec, format string, a ...any) *Violation {
	return &Violation{Prop: o.prop, Step: st.N, Reason: fmt.Sprintf(format, a...)}
}

func subKey(realm, class, topic string) string { return realm + "|" + class + "|" + topic }

func (o *brokerOracle) removeSession(idx int) {
	realm := o.c.Sess[idx].Realm
	for k, s := range o.subs {
		if !strings.HasPrefix(k, realm+"|") {
			continue
		}
		if s.members[idx] {
			delete(s.members, idx)
			o.touched[k] = true
			if len(s.members) == 0 {
				delete(o.subs, k)
				delete(o.byID, fmt.Sprintf("%s|%d", realm, s.id))
			}
		}
	}
}

// expectation bookkeeping: per session list of predicates that must each be
// satisfied by exactly one received message, and nothing else may be received.
type expMsg struct {
	desc  string
	match func(m wamp.Message) bool
}

func isMetaEvent(m wamp.Message) bool {
	ev, ok := m.(*wamp.Event)
	if !ok {
		return false
	}
	tp, _ := wamp.AsString(ev.Details["topic"])
	return strings.HasPrefix(tp, "wamp.")
}

func checkExpectations(exp map[int][]expMsg, recv map[int][]wamp.Message, nsess int, ignore func(int, wamp.Message) bool) string {
	for s := 0; s < nsess; s++ {
		var got []wamp.Message
		for _, m := range recv[s] {
			if ignore != nil && ignore(s, m) {
				continue
			}
			got = append(got, m)
		}
		want := exp[s]
		used := make([]bool, len(got))
		for _, w := range want {
			found := false
			for i, g := range got {
				if !used[i] && w.match(g) {
					used[i] = true
					found = true
					break
				}
			}
			if !found {
				var gs []string
				for _, g := range got {
					gs = append(gs, MsgString(g))
				}
				return fmt.Sprintf("session %d: expected %s, received [%s]", s, w.desc, strings.Join(gs, "; "))
			}
		}
		for i, g := range got {
			if !used[i] {
				return fmt.Sprintf("session %d: unexpected message %s", s, MsgString(g))
			}
		}
	}
	return ""
}

func (o *brokerOracle) OnStep(e *Engine, st *StepRec) *Violation {
	exp := map[int][]expMsg{}
	// Non-message ops first (drop).
	for _, oi := range st.OpIdx {
		op := &e.C.Ops[oi]
		if op.K == "drop" && o.sess[op.S].joined && !o.sess[op.S].ended {
			o.sess[op.S].ended = true
			o.removeSession(op.S)
		}
	}
	if st.Phase == "drop" {
		for i, s := range o.sess {
			if s.joined && !s.ended {
				s.ended = true
				o.removeSession(i)
			}
		}
	}
	var pubID *wamp.ID
	for _, sr := range st.Sent {
		ms := o.sess[sr.S]
		realm := o.c.Sess[sr.S].Realm
		switch m := sr.Msg.(type) {
		case *wamp.Hello:
			// Outcome taken from the observation (C09 owns the handshake).
			for _, r := range st.Recv[sr.S] {
				if w, ok := r.(*wamp.Welcome); ok && !ms.joined {
					ms.joined = true
					ms.sid = w.ID
					for _, kv := range o.c.Sess[sr.S].Hello {
						if kv.V.T == "str" {
							ms.attrs[kv.K] = kv.V.S
						}
					}
					for k, v := range w.Details {
						if s, ok := wamp.AsString(v); ok {
							ms.attrs[k] = s
						}
					}
				}
			}
			if !ms.joined {
				ms.ended = true
			}
			exp[sr.S] = append(exp[sr.S], expMsg{"WELCOME or ABORT", func(m wamp.Message) bool {
				switch m.(type) {
				case *wamp.Welcome, *wamp.Abort:
					return true
				}
				return false
			}})
		case *wamp.Subscribe:
			if !ms.joined || ms.ended {
				continue
			}
			match, _ := wamp.AsString(m.Options["match"])
			class := policyClass(match)
			valid, grey := modelValidURI(string(m.Topic), o.strict[realm], match)
			if grey {
				return nil
			}
			req := m.Request
			if !valid {
				o.st.Label("subscribe_invalid_uri")
				exp[sr.S] = append(exp[sr.S], expMsg{fmt.Sprintf("ERROR{SUBSCRIBE req=%d wamp.error.invalid_uri}", req), func(x wamp.Message) bool {
					er, ok := x.(*wamp.Error)
					return ok && er.Type == wamp.SUBSCRIBE && er.Request == req && er.Error == wamp.ErrInvalidURI
				}})
				continue
			}
			key := subKey(realm, class, string(m.Topic))
			existing := o.subs[key]
			var got *wamp.Subscribed
			for _, r := range st.Recv[sr.S] {
				if sd, ok := r.(*wamp.Subscribed); ok && sd.Request == req {
					got = sd
				}
			}
			if got == nil {
				return o.fail(st, "session %d: SUBSCRIBE req=%d topic=%q match=%q got no SUBSCRIBED (received %s)", sr.S, req, m.Topic, match, recvString(st.Recv[sr.S]))
			}
			if existing != nil {
				if got.Subscription != existing.id {
					return o.fail(st, "session %d: SUBSCRIBE to live (%s,%q) answered with id %d, but the live subscription has id %d", sr.S, class, m.Topic, got.Subscription, existing.id)
				}
				if existing.members[sr.S] {
					o.st.Label("resubscribe_same_session")
				}
				existing.members[sr.S] = true
			} else {
				idk := fmt.Sprintf("%s|%d", realm, got.Subscription)
				if other := o.byID[idk]; other != nil {
					return o.fail(st, "session %d: new subscription (%s,%q) got id %d which is the id of live subscription (%s,%q)", sr.S, class, m.Topic, got.Subscription, other.class, other.topic)
				}
				ns := &mSub{id: got.Subscription, topic: string(m.Topic), class: class, members: map[int]bool{sr.S: true}}
				o.subs[key] = ns
				o.byID[idk] = ns
			}
			exp[sr.S] = append(exp[sr.S], expMsg{"SUBSCRIBED", func(x wamp.Message) bool { return x == wamp.Message(got) }})
		case *wamp.Unsubscribe:
			if !ms.joined || ms.ended {
				continue
			}
			req := m.Request
			idk := fmt.Sprintf("%s|%d", realm, m.Subscription)
			sub := o.byID[idk]
			isErr := func(x wamp.Message) bool {
				er, ok := x.(*wamp.Error)
				return ok && er.Type == wamp.UNSUBSCRIBE && er.Request == req && er.Error == wamp.ErrNoSuchSubscription
			}
			isOK := func(x wamp.Message) bool {
				u, ok := x.(*wamp.Unsubscribed)
				return ok && u.Request == req
			}
			switch {
			case sub == nil:
				o.st.Label("unsubscribe_unknown")
				exp[sr.S] = append(exp[sr.S], expMsg{fmt.Sprintf("ERROR{UNSUBSCRIBE req=%d no_such_subscription}", req), isErr})
			case sub.members[sr.S]:
				delete(sub.members, sr.S)
				key := subKey(realm, sub.class, sub.topic)
				o.touched[key] = true
				if len(sub.members) == 0 {
					delete(o.subs, key)
					delete(o.byID, idk)
				}
				exp[sr.S] = append(exp[sr.S], expMsg{fmt.Sprintf("UNSUBSCRIBED{req=%d}", req), isOK})
			default:
				// live but held only by others: reply unspecified, no effect on holders.
				o.st.Label("unsubscribe_foreign")
				exp[sr.S] = append(exp[sr.S], expMsg{"UNSUBSCRIBED or ERROR no_such_subscription", func(x wamp.Message) bool { return isErr(x) || isOK(x) }})
			}
		case *wamp.Publish:
			if !ms.joined || ms.ended {
				continue
			}
			if v := o.expectPublish(st, sr.S, realm, m, exp, &pubID); v != nil {
				return v
			}
		case *wamp.Goodbye:
			if !ms.joined || ms.ended {
				continue
			}
			ms.ended = true
			o.removeSession(sr.S)
			exp[sr.S] = append(exp[sr.S], expMsg{"GOODBYE", func(x wamp.Message) bool { _, ok := x.(*wamp.Goodbye); return ok }})
		}
	}
	if msg := checkExpectations(exp, st.Recv, len(o.sess), func(s int, m wamp.Message) bool { return isMetaEvent(m) }); msg != "" {
		return o.fail(st, "%s", msg)
	}
	return nil
}

func recvString(ms []wamp.Message) string {
	var out []string
	for _, m := range ms {
		out = append(out, MsgString(m))
	}
	return "[" + strings.Join(out, "; ") + "]"
}

// modelFilterAllows implements the exclude/eligible rules of C01 over a
// session's id and string attributes.
func modelFilterAllows(opts wamp.Dict, sid wamp.ID, attrs map[string]string) bool {
	idIn := func(v any) (bool, bool) {
		l, ok := wamp.AsList(v)
		if !ok || len(l) == 0 {
			return false, false
		}
		for _, x := range l {
			if id, ok := wamp.AsID(x); ok && id == sid {
				return true, true
			}
		}
		return false, true
	}
	if v, ok := opts["exclude"]; ok {
		if in, _ := idIn(v); in {
			return false
		}
	}
	if v, ok := opts["eligible"]; ok {
		if in, given := idIn(v); given && !in {
			return false
		}
	}
	for k, v := range opts {
		var attr string
		var excl bool
		switch {
		case strings.HasPrefix(k, "exclude_") && k != "exclude_me":
			attr, excl = k[len("exclude_"):], true
		case strings.HasPrefix(k, "eligible_"):
			attr = k[len("eligible_"):]
		default:
			continue
		}
		l, ok := wamp.AsList(v)
		if !ok {
			continue
		}
		var vals []string
		for _, x := range l {
			if s, ok := wamp.AsString(x); ok && s != "" {
				vals = append(vals, s)
			}
		}
		if len(vals) == 0 {
			continue
		}
		have, has := attrs[attr]
		in := false
		for _, s := range vals {
			if has && s == have {
				in = true
			}
		}
		if excl && in {
			return false
		}
		if !excl && !in {
			return false
		}
	}
	return true
}

func (o *brokerOracle) expectPublish(st *StepRec, pubS int, realm string, m *wamp.Publish, exp map[int][]expMsg, pubIDp **wamp.ID) *Violation {
	ack, _ := m.Options["acknowledge"].(bool)
	req := m.Request
	valid, grey := modelValidURI(string(m.Topic), o.strict[realm], "")
	if grey {
		return nil
	}
	if !valid {
		o.st.Label("publish_invalid_uri")
		if ack {
			exp[pubS] = append(exp[pubS], expMsg{fmt.Sprintf("ERROR{PUBLISH req=%d invalid_uri}", req), func(x wamp.Message) bool {
				er, ok := x.(*wamp.Error)
				return ok && er.Type == wamp.PUBLISH && er.Request == req && er.Error == wamp.ErrInvalidURI
			}})
		}
		return nil
	}
	excludeMe := true
	if b, ok := m.Options["exclude_me"].(bool); ok {
		excludeMe = b
	}
	// One publication id for everybody: bind on first sight.
	var pid wamp.ID
	bind := func(id wamp.ID) bool {
		if pid == 0 {
			pid = id
			return true
		}
		return pid == id
	}
	classes := map[string]bool{}
	filtered := false
	afterChange := false
	nrecv := 0
	keys := make([]string, 0, len(o.subs))
	for k := range o.subs {
		keys = append(keys, k)
	}
	sort.Strings(keys)
	for _, k := range keys {
		sub := o.subs[k]
		if !strings.HasPrefix(k, realm+"|") || !modelMatches(string(m.Topic), sub.topic, sub.class) {
			continue
		}
		if o.touched[k] {
			afterChange = true
		}
		for idx := range sub.members {
			rs := o.sess[idx]
			if idx == pubS && excludeMe {
				if len(sub.members) > 0 {
					filtered = filtered || false
				}
				continue
			}
			if !modelFilterAllows(m.Options, rs.sid, rs.attrs) {
				filtered = true
				continue
			}
			classes[sub.class] = true
			nrecv++
			subID, class, topic := sub.id, sub.class, string(m.Topic)
			args, kw := m.Arguments, m.ArgumentsKw
			exp[idx] = append(exp[idx], expMsg{
				fmt.Sprintf("EVENT{sub=%d topic=%q}", subID, topic),
				func(x wamp.Message) bool {
					ev, ok := x.(*wamp.Event)
					if !ok || ev.Subscription != subID {
						return false
					}
					if class != "exact" {
						tp, _ := wamp.AsString(ev.Details["topic"])
						if tp != topic {
							return false
						}
					}
					if !PayloadEq(ev.Arguments, args) || !PayloadEq(ev.ArgumentsKw, kw) {
						return false
					}
					return bind(ev.Publication)
				}})
		}
	}
	if ack {
		exp[pubS] = append(exp[pubS], expMsg{fmt.Sprintf("PUBLISHED{req=%d}", req), func(x wamp.Message) bool {
			p, ok := x.(*wamp.Published)
			return ok && p.Request == req && bind(p.Publication)
		}})
	}
	// labels / non-triviality
	o.st.Label("publish")
	if nrecv > 0 {
		o.st.Label("publish_delivered")
	}
	if len(classes) >= 2 {
		o.st.Label("publish_multi_policy")
		o.st.NonTrivial = true
	}
	if filtered {
		o.st.Label("publish_filter_excluded")
		o.st.NonTrivial = true
	}
	if afterChange {
		o.st.Label("publish_after_membership_change")
		o.st.NonTrivial = true
	}
	for k := range m.Options {
		o.st.Label("opt:" + k)
	}
	return nil
}
