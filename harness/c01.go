package harness

// C01 — Pub/Sub delivers each event to exactly the matching, eligible subscribers.
// Generator: sequential histories of join/subscribe/unsubscribe/publish/leave over
// a tiny overlapping URI alphabet. Oracle: reference broker model (this file),
// compared after every step with the exact multiset of messages every session
// received.

import (
	"fmt"

	"pgregory.net/rapid"
)

func init() {
	register(&Property{
		ID: "C01",
		Rule: "rapid-generated sequential histories (2-6 sessions, <=40 ops: subscribe/unsubscribe/publish with option subsets/leave/late join) " +
			"against a reference broker model; non-trivial = a case containing a PUBLISH that matched >=2 subscriptions of different policies, " +
			"or whose filter/exclusion removed an otherwise-receiving session, or that followed an unsubscribe/departure from a matching subscription; " +
			"distinct = distinct case hash",
		Gen:       genC01,
		NewOracle: func(c *Case) Oracle {
			return newComposite(c, "C01", func(w *World) []Part { return []Part{newBrokerPart(w)} })
		},
		Assumptions: []string{
			"sequential histories only: synctest.Wait() after every op, so outcomes are schedule independent",
			"payload values restricted to the WAMP data model (ints within ±2^53, finite floats, no binary)",
			"grey zones (DESIGN 3.6): UNSUBSCRIBE of a subscription held only by others may answer UNSUBSCRIBED or no_such_subscription; subscription id after re-creation may be new or reused",
		},
	})
}

// ---- generator ---------------------------------------------------------------

var c01Users = []UserCfg{{AuthID: "u1", Role: "r1"}, {AuthID: "u2", Role: "r2"}, {AuthID: "u3", Role: "r1"}}

func genPubSubSessions(t *rapid.T, realm string, requireLocalAuth bool, nmin, nmax int) []SessCfg {
	n := nmin + uni(t, nmax-nmin+1, "nsess")
	remoteIdx := -1
	if uni(t, 3, "hasRemote") == 0 {
		remoteIdx = uni(t, n-1+1, "remoteIdx")
	}
	out := make([]SessCfg, n)
	for i := range out {
		s := SessCfg{Realm: realm, Roles: fullRoles()}
		if i == remoteIdx {
			s.Transport = pick(t, remoteTransports, "transport")
		}
		user := pick(t, c01Users, "user")
		remote := s.Transport != ""
		if requireLocalAuth || remote {
			if remote && uni(t, 4, "anon") == 0 {
				// anonymous remote session: router assigns a random authid
			} else {
				s.AuthMeth = []string{"static"}
				s.Hello = append(s.Hello, KV{"authid", VStr(user.AuthID)})
			}
		} else if rapid.Bool().Draw(t, "hasAuthid") {
			s.Hello = append(s.Hello, KV{"authid", VStr(user.AuthID)})
		}
		if rapid.Bool().Draw(t, "hasOrg") {
			s.Hello = append(s.Hello, KV{"org", VStr(pick(t, []string{"x", "y"}, "org"))})
		}
		if rapid.Bool().Draw(t, "hasTeam") {
			s.Hello = append(s.Hello, KV{"team", VStr(pick(t, []string{"p", "q"}, "team"))})
		}
		if pct(t, 12, "smuggle") {
			// a client-chosen authrole (or authmethod) in HELLO never counts: filters see
			// the identity the router assigned in WELCOME
			s.Hello = append(s.Hello, KV{pick(t, []string{"authrole", "authrole", "authmethod"}, "smk"), VStr(pick(t, []string{"r1", "r2", "trusted", "anonymous"}, "smv"))})
		}
		if i > 1 && uni(t, 6, "late") == 0 {
			s.NoJoin = true
		}
		out[i] = s
	}
	return out
}

func genSessRefList(t *rapid.T, nsess int, label string) V {
	n := (1 + uni(t, 3, label+"n"))
	items := make([]V, 0, n)
	for i := 0; i < n; i++ {
		if uni(t, 8, label+"bogus") == 0 {
			items = append(items, VRef(fmt.Sprintf("bogus:%d", i)))
		} else {
			items = append(items, VRef(fmt.Sprintf("sid:%d", uni(t, nsess-1+1, label+"s"))))
		}
	}
	return VList(items...)
}

func genStrList(t *rapid.T, vals []string, label string) V {
	n := (1 + uni(t, 2, label+"n"))
	items := make([]V, n)
	for i := range items {
		items[i] = VStr(pick(t, vals, label))
	}
	return VList(items...)
}

func genPublishOpts(t *rapid.T, nsess int) []KV {
	var o []KV
	if uni(t, 10, "ack") < 7 {
		o = append(o, KV{"acknowledge", VBool(true)})
	} else if uni(t, 4, "ackfalse") == 0 {
		o = append(o, KV{"acknowledge", VBool(false)})
	}
	switch uni(t, 4, "exclme") {
	case 0:
		o = append(o, KV{"exclude_me", VBool(false)})
	case 1:
		o = append(o, KV{"exclude_me", VBool(true)})
	}
	if uni(t, 4, "hasExcl") == 0 {
		o = append(o, KV{"exclude", genSessRefList(t, nsess, "excl")})
	}
	if uni(t, 5, "hasElig") == 0 {
		o = append(o, KV{"eligible", genSessRefList(t, nsess, "elig")})
	}
	if uni(t, 7, "f1") == 0 {
		o = append(o, KV{"exclude_authid", genStrList(t, []string{"u1", "u2", "u3", "zz"}, "xa")})
	}
	if uni(t, 7, "f2") == 0 {
		o = append(o, KV{"eligible_authid", genStrList(t, []string{"u1", "u2", "u3", "zz"}, "ea")})
	}
	if uni(t, 7, "f3") == 0 {
		o = append(o, KV{"exclude_authrole", genStrList(t, []string{"r1", "r2", "trusted", "anonymous"}, "xr")})
	}
	if uni(t, 7, "f4") == 0 {
		o = append(o, KV{"eligible_authrole", genStrList(t, []string{"r1", "r2", "trusted", "anonymous"}, "er")})
	}
	if uni(t, 9, "f5") == 0 {
		o = append(o, KV{"exclude_org", genStrList(t, []string{"x", "y"}, "xo")})
	}
	if uni(t, 9, "f6") == 0 {
		o = append(o, KV{"eligible_team", genStrList(t, []string{"p", "q"}, "et")})
	}
	if uni(t, 10, "dm") == 0 {
		// disclosure combined with the filters (what is disclosed is C12's clause)
		o = append(o, KV{"disclose_me", VBool(true)})
	}
	return o
}

func genPubSubOp(t *rapid.T, nsess int, strict bool) Op {
	s := uni(t, nsess-1+1, "s")
	k := uni(t, 100, "opk")
	switch {
	case k < 36:
		m := genMatch(t)
		op := Op{K: "subscribe", S: s, Mode: m}
		if uni(t, 100, "badsub") < 12 {
			op.URI = genInvalidURI(t, strict, m)
		} else {
			op.URI = genPattern(t, m)
		}
		return op
	case k < 46:
		who := -1
		if uni(t, 5, "other") == 0 {
			who = uni(t, nsess-1+1, "who")
		}
		ref := fmt.Sprintf("sub:%d:%d", who, uni(t, 6, "n"))
		if uni(t, 10, "bogus") == 0 {
			ref = "bogus:1"
		}
		return Op{K: "unsubscribe", S: s, Ref: ref}
	case k < 93:
		op := Op{K: "publish", S: s, Opts: genPublishOpts(t, nsess), Args: genArgs(t, valOpts{}), Kw: genKw(t, valOpts{})}
		if uni(t, 100, "badpub") < 8 {
			op.URI = genInvalidURI(t, strict, "")
		} else {
			op.URI = genTopic(t)
		}
		return op
	case k < 95:
		return Op{K: "goodbye", S: s}
	case k < 97:
		return Op{K: "drop", S: s}
	default:
		return Op{K: "join", S: s}
	}
}

// psGen threads a little state through the generation of one history so that
// most publications hit at least one subscription (it only steers draws).
type psGen struct {
	nsess  int
	strict bool
	subs   []gReg // uri + class of subscriptions probably made so far
}

func (g *psGen) topicFor(t *rapid.T) string {
	if len(g.subs) > 0 && pct(t, 70, "hit") {
		r := g.subs[uni(t, len(g.subs), "whichsub")]
		tmp := rpcGen{}
		return tmp.uriFor(t, &r)
	}
	return genTopic(t)
}

func (g *psGen) op(t *rapid.T) Op {
	op := genPubSubOp(t, g.nsess, g.strict)
	switch op.K {
	case "subscribe":
		if v, _ := modelValidURI(op.URI, g.strict, op.Mode); v {
			g.subs = append(g.subs, gReg{uri: op.URI, class: policyClass(op.Mode)})
		}
	case "publish":
		if v, _ := modelValidURI(op.URI, g.strict, ""); v {
			op.URI = g.topicFor(t)
		}
	}
	return op
}

func genC01(t *rapid.T) *Case {
	strict := rapid.Bool().Draw(t, "strict")
	rla := rapid.Bool().Draw(t, "requireLocalAuth")
	c := &Case{
		Realms: []RealmCfg{{URI: "r1", Strict: strict, Anonymous: true, RequireLocalAuth: rla, Auths: []string{"static"}, Users: c01Users}},
	}
	c.Sess = genPubSubSessions(t, "r1", rla, 2, 6)
	if rapid.Bool().Draw(t, "observer") {
		// catch-all observer: prefix "" subscription made right at the start.
		c.Ops = append(c.Ops, Op{K: "subscribe", S: 0, URI: "", Mode: "prefix"})
	}
	g := &psGen{nsess: len(c.Sess), strict: strict}
	ops := rapid.SliceOfN(rapid.Custom(func(t *rapid.T) Op { return g.op(t) }), minHistory(t, 40), 40).Draw(t, "ops")
	c.Ops = append(c.Ops, ops...)
	return c
}

