package harness

// Reference model of event history (C20): one bounded deque per configured
// (topic, policy, limit); filters are the conjunction of independent predicates.

import (
	"fmt"
	"reflect"
	"strings"
	"time"

	"github.com/gammazero/nexus/v3/wamp"
)

type hEntry struct {
	pid   func() wamp.ID
	topic string
	args  wamp.List
	kw    wamp.Dict
	at    time.Time
	n     int // global publication ordinal
}

type hStore struct {
	cfg     HistCfg
	realm   string
	entries []hEntry
	wrapped bool
}

type historyPart struct {
	b      *brokerPart
	stores []*hStore
	npub   int
	t0     time.Time
}

func newHistoryPart(w *World, b *brokerPart, t0 time.Time) *historyPart {
	h := &historyPart{b: b, t0: t0}
	for i := range w.c.Realms {
		rc := &w.c.Realms[i]
		for _, hc := range rc.History {
			h.stores = append(h.stores, &hStore{cfg: hc, realm: rc.URI})
			b.persistent[subKey(rc.URI, policyClass(hc.Match), hc.Topic)] = true
		}
	}
	b.onPublish = func(st *StepRec, s int, m *wamp.Publish, pid func() wamp.ID) {
		realm := w.sess[s].realm
		h.npub++
		_, hasExcl := m.Options["exclude"]
		_, hasElig := m.Options["eligible"]
		for _, hs := range h.stores {
			if hs.realm != realm || !modelMatches(string(m.Topic), hs.cfg.Topic, policyClass(hs.cfg.Match)) {
				continue
			}
			if hasExcl || hasElig {
				w.st.Label("history_skipped_restricted_publication")
				continue
			}
			hs.entries = append(hs.entries, hEntry{pid: pid, topic: string(m.Topic), args: m.Arguments, kw: m.ArgumentsKw, at: h.t0.Add(st.T), n: h.npub})
			if len(hs.entries) > hs.cfg.Limit {
				hs.entries = hs.entries[1:]
				hs.wrapped = true
			}
			w.st.Label("history_retained")
		}
	}
	return h
}

func (h *historyPart) Ignore(*World, int, wamp.Message) bool              { return false }
func (h *historyPart) OnEnded(*World, *StepRec, int, Exp)                  {}
func (h *historyPart) AfterStep(*World, *StepRec, Exp) *Violation          { return nil }

// field reads a named field from a stored event as delivered: a Go struct for
// in-process callers, a map for serialised ones.
func evField(item any, name string) (any, bool) {
	switch m := item.(type) {
	case wamp.Dict:
		for k, v := range m {
			if strings.EqualFold(k, name) {
				return v, true
			}
		}
		return nil, false
	case map[string]any:
		for k, v := range m {
			if strings.EqualFold(k, name) {
				return v, true
			}
		}
		return nil, false
	}
	rv := reflect.ValueOf(item)
	if rv.Kind() == reflect.Pointer {
		rv = rv.Elem()
	}
	if rv.Kind() != reflect.Struct {
		return nil, false
	}
	f := rv.FieldByName(name)
	if !f.IsValid() || !f.CanInterface() {
		return nil, false
	}
	return f.Interface(), true
}

func (h *historyPart) OnSent(w *World, st *StepRec, sr sentRec, exp Exp) *Violation {
	call, ok := sr.Msg.(*wamp.Call)
	if !ok || call.Procedure != "wamp.subscription.get_events" {
		return nil
	}
	s := sr.S
	realm := w.sess[s].realm
	req := call.Request
	anyReply := func(why string) {
		w.st.Label("history_query_grey:" + why)
		exp.must(s, fmt.Sprintf("one RESULT or ERROR for req=%d (%s)", req, why), func(x wamp.Message) bool {
			if _, ok := isResult(x, req); ok {
				return true
			}
			return isCallError(x, req, "")
		})
	}
	if len(call.Arguments) == 0 {
		exp.must(s, "ERROR invalid_argument", func(x wamp.Message) bool { return isCallError(x, req, wamp.ErrInvalidArgument) })
		return nil
	}
	id, ok := wamp.AsID(call.Arguments[0])
	if !ok {
		exp.must(s, "ERROR invalid_argument", func(x wamp.Message) bool { return isCallError(x, req, wamp.ErrInvalidArgument) })
		return nil
	}
	sub := h.b.byID[idKey(realm, id)]
	var hs *hStore
	if sub != nil {
		for _, x := range h.stores {
			if x.realm == realm && x.cfg.Topic == sub.topic && policyClass(x.cfg.Match) == sub.class {
				hs = x
			}
		}
	}
	if hs == nil {
		anyReply("not a history subscription")
		return nil
	}
	kw := call.ArgumentsKw
	// ---- parse filters (model side) ----
	intOpt := func(k string) (int64, bool, bool) { // value, present, well-typed
		v, has := kw[k]
		if !has {
			return 0, false, true
		}
		n, ok := wamp.AsInt64(v)
		if f, isF := v.(float64); isF && f != float64(int64(f)) {
			ok = false
		}
		return n, true, ok
	}
	timeOpt := func(k string) (time.Time, bool, bool) {
		v, has := kw[k]
		if !has {
			return time.Time{}, false, true
		}
		sv, ok := wamp.AsString(v)
		if !ok {
			return time.Time{}, true, false
		}
		tm, err := time.Parse(time.RFC3339, sv)
		return tm, true, err == nil
	}
	limit, hasLimit, okLimit := intOpt("limit")
	if !okLimit || (hasLimit && limit < 1) {
		if !okLimit {
			anyReply("limit of a non-integer type")
		} else {
			exp.must(s, "ERROR invalid_argument (limit < 1)", func(x wamp.Message) bool { return isCallError(x, req, wamp.ErrInvalidArgument) })
		}
		return nil
	}
	reverse := false
	if rv, has := kw["reverse"]; has {
		b, ok := rv.(bool)
		if !ok {
			exp.must(s, "ERROR invalid_argument (reverse not bool)", func(x wamp.Message) bool { return isCallError(x, req, wamp.ErrInvalidArgument) })
			return nil
		}
		reverse = b
	}
	type tb struct {
		t   time.Time
		has bool
	}
	var fromT, afterT, beforeT, untilT tb
	for k, p := range map[string]*tb{"from_time": &fromT, "after_time": &afterT, "before_time": &beforeT, "until_time": &untilT} {
		tm, has, ok := timeOpt(k)
		if !ok {
			anyReply("malformed time bound")
			return nil
		}
		p.t, p.has = tm, has
	}
	pubOpt := func(k string) (wamp.ID, bool, bool) {
		v, has := kw[k]
		if !has {
			return 0, false, true
		}
		id, ok := wamp.AsID(v)
		return id, true, ok
	}
	fromP, hasFromP, ok1 := pubOpt("from_publication")
	afterP, hasAfterP, ok2 := pubOpt("after_publication")
	beforeP, hasBeforeP, ok3 := pubOpt("before_publication")
	untilP, hasUntilP, ok4 := pubOpt("until_publication")
	if !ok1 || !ok2 || !ok3 || !ok4 {
		exp.must(s, "ERROR invalid_argument (publication bound is not an id)", func(x wamp.Message) bool { return isCallError(x, req, wamp.ErrInvalidArgument) })
		return nil
	}
	topicFilter, hasTopic := "", false
	if tv, has := kw["topic"]; has {
		if sv, ok := wamp.AsString(tv); ok && sv != "" {
			topicFilter, hasTopic = sv, true
		}
	}
	if hasTopic && policyClass(hs.cfg.Match) == "exact" {
		anyReply("topic filter on an exact-policy history")
		return nil
	}
	// ---- evaluate ----
	ents := hs.entries
	for _, e := range ents {
		if e.pid() == 0 {
			anyReply("a retained publication whose id was never observable")
			return nil
		}
	}
	inTime := func(e hEntry) bool {
		return (!fromT.has || !e.at.Before(fromT.t)) && (!afterT.has || e.at.After(afterT.t)) && (!beforeT.has || e.at.Before(beforeT.t)) && (!untilT.has || !e.at.After(untilT.t))
	}
	pos := func(id wamp.ID) int {
		for i, e := range ents {
			if e.pid() == id {
				return i
			}
		}
		return -1
	}
	lo, hi := 0, len(ents) // [lo,hi)
	for _, b := range []struct {
		has  bool
		id   wamp.ID
		kind string
	}{{hasFromP, fromP, "from"}, {hasAfterP, afterP, "after"}, {hasBeforeP, beforeP, "before"}, {hasUntilP, untilP, "until"}} {
		if !b.has {
			continue
		}
		p := pos(b.id)
		if p < 0 {
			anyReply("publication bound not in the store")
			return nil
		}
		if !inTime(ents[p]) {
			anyReply("publication bound outside the time window")
			return nil
		}
		if hasTopic && ents[p].topic != topicFilter {
			// the bounding publication itself is ruled out by the topic filter: it still
			// bounds the window (conjunction of independent predicates)
			w.st.Label("history_query_bound_on_other_topic")
		}
		switch b.kind {
		case "from":
			lo = max(lo, p)
		case "after":
			lo = max(lo, p+1)
		case "before":
			hi = min(hi, p)
		case "until":
			hi = min(hi, p+1)
		}
	}
	if hasFromP || hasAfterP || hasBeforeP || hasUntilP {
		w.st.Label("history_query_publication_bound_judged")
	}
	if (hasFromP && hasAfterP) || (hasBeforeP && hasUntilP) {
		anyReply("two publication bounds on the same side")
		return nil
	}
	if (hasFromP || hasAfterP) && (hasBeforeP || hasUntilP) && lo >= hi {
		anyReply("publication bounds that describe an empty or inverted window")
		return nil
	}
	var sel []hEntry
	for i := lo; i < hi; i++ {
		e := ents[i]
		if inTime(e) && (!hasTopic || e.topic == topicFilter) {
			sel = append(sel, e)
		}
	}
	// candidates: with limit and reverse the statement leaves the window end open
	var cands [][]hEntry
	if hasLimit && int(limit) < len(sel) {
		recent := sel[len(sel)-int(limit):]
		if reverse {
			cands = append(cands, rev(recent), rev(sel[:limit]))
			w.st.Label("history_query_limit_reverse")
		} else {
			cands = append(cands, recent)
		}
	} else if reverse {
		cands = append(cands, rev(sel))
	} else {
		cands = append(cands, sel)
	}
	w.st.Label("history_query")
	if len(kw) > 0 {
		w.st.Label("history_query_filtered")
	}
	if hs.wrapped {
		w.st.Label("history_query_after_wrap")
	}
	subTopic, class := hs.cfg.Topic, policyClass(hs.cfg.Match)
	var why string
	exp.must(s, fmt.Sprintf("RESULT{req=%d} with %d retained publication(s) %s", req, len(cands[0]), descEntries(cands[0])), func(x wamp.Message) bool {
		r, ok := isResult(x, req)
		if !ok {
			return false
		}
		for _, cand := range cands {
			if why = matchHistory(r.Arguments, cand, subTopic, class); why == "" {
				return true
			}
		}
		return false
	})
	return nil
}

func rev(in []hEntry) []hEntry {
	out := make([]hEntry, len(in))
	for i := range in {
		out[len(in)-1-i] = in[i]
	}
	return out
}

func descEntries(es []hEntry) string {
	var p []string
	for _, e := range es {
		p = append(p, fmt.Sprintf("#%d(pub %d,%s)", e.n, e.pid(), e.topic))
	}
	return "[" + strings.Join(p, " ") + "]"
}

func matchHistory(got wamp.List, want []hEntry, subTopic, class string) string {
	if len(got) != len(want) {
		return fmt.Sprintf("%d entries, want %d", len(got), len(want))
	}
	for i, item := range got {
		w := want[i]
		pv, ok := evField(item, "Publication")
		if !ok || !idEq(pv, w.pid()) {
			return fmt.Sprintf("entry %d: publication %v, want %d", i, pv, w.pid())
		}
		av, _ := evField(item, "Arguments")
		kv, _ := evField(item, "ArgumentsKw")
		if !PayloadEq(av, w.args) || !PayloadEq(kv, w.kw) {
			return fmt.Sprintf("entry %d: payload differs", i)
		}
		if class != "exact" {
			dv, _ := evField(item, "Details")
			dd, _ := wamp.AsDict(dv)
			tp, _ := wamp.AsString(dd["topic"])
			if tp != w.topic {
				return fmt.Sprintf("entry %d: topic %q, want %q", i, tp, w.topic)
			}
		}
	}
	return ""
}
