package harness

// C18 — meta API and meta events mirror the realm's actual state.
// C05 — ending a session removes all of its effects and state.
// Both use mixed pub/sub + RPC + meta histories judged by the composite of the
// broker, dealer and meta models; C05 adds the structural snapshot check (H1).

import (
	"fmt"

	"github.com/gammazero/nexus/v3/router"
	"pgregory.net/rapid"
)

var metaTopics = []string{
	"wamp.session.on_join", "wamp.session.on_leave",
	"wamp.subscription.on_create", "wamp.subscription.on_subscribe", "wamp.subscription.on_unsubscribe", "wamp.subscription.on_delete",
	"wamp.registration.on_create", "wamp.registration.on_register", "wamp.registration.on_unregister", "wamp.registration.on_delete",
}

// historyVariantOracle judges C05 on a realm with configured event histories
// (the C20 generator): broker + dealer + history models, the table-size
// comparison after every step and after everybody has left. The meta model is
// not part of it (pre-created history subscriptions in the meta API are a grey
// zone), so the cases contain no kills.
func historyVariantOracle(c *Case) Oracle {
	var b *brokerPart
	var d *dealerPart
	o := newComposite(c, "C05", func(w *World) []Part {
		b = newBrokerPart(w)
		d = newDealerPart(w)
		d.handledProcs["wamp.subscription.get_events"] = true
		h := newHistoryPart(w, b, bubbleEpoch)
		return []Part{b, d, h}
	})
	o.afterStep = func(e *Engine, st *StepRec) *Violation {
		if st.Phase == "drop" || st.Phase == "close" || e.RouterClosed {
			return nil
		}
		return structCheck(e, o.w, b, d, nil, st)
	}
	o.onQuiesced = func(e *Engine) *Violation {
		now := router.VerifSnapshot(e.R)
		for uri, base := range e.Baseline {
			cur, ok := now[uri]
			if !ok {
				continue
			}
			cur.HistoryEntries = base.HistoryEntries // retained publications are supposed to stay
			if cur != base {
				return &Violation{Prop: "C05", Reason: fmt.Sprintf("realm %s (event history configured): after every session has left the router still holds state: baseline %+v, now %+v", uri, base, cur)}
			}
		}
		return nil
	}
	o.finishStats = func(st *CaseStats) {
		st.Label("history_realm_variant")
		st.NonTrivial = st.Labels["nt05"] > 0
	}
	return o
}

func fullOracle(prop string, snapshot bool) func(c *Case) Oracle {
	return func(c *Case) Oracle {
		if prop == "C05" && len(c.Realms) > 0 && len(c.Realms[0].History) > 0 {
			return historyVariantOracle(c)
		}
		var b *brokerPart
		var d *dealerPart
		var m *metaPart
		o := newComposite(c, prop, func(w *World) []Part {
			b = newBrokerPart(w)
			d = newDealerPart(w)
			m = newMetaPart(w, b, d)
			b.metaAsserted = true
			parts := []Part{b, d, m}
			if len(c.Realms) > 0 && len(c.Realms[0].History) > 0 {
				// C18 on a realm with event histories: their subscriptions are never deleted,
				// so no on_delete may be announced for them
				d.handledProcs["wamp.subscription.get_events"] = true
				parts = append(parts, newHistoryPart(w, b, bubbleEpoch))
			}
			return parts
		})
		if snapshot {
			o.afterStep = func(e *Engine, st *StepRec) *Violation {
				if st.Phase == "drop" || st.Phase == "close" || e.RouterClosed {
					return nil
				}
				return structCheck(e, o.w, b, d, m, st)
			}
			o.onQuiesced = func(e *Engine) *Violation {
				now := router.VerifSnapshot(e.R)
				for uri, base := range e.Baseline {
					cur, ok := now[uri]
					if !ok {
						continue
					}
					if cur != base {
						return &Violation{Prop: prop, Reason: fmt.Sprintf("realm %s: after every session has left and every timer has fired the router still holds state: baseline %+v, now %+v", uri, base, cur)}
					}
				}
				return nil
			}
		}
		o.finishStats = func(st *CaseStats) {
			switch prop {
			case "C18":
				st.NonTrivial = st.Labels["nt18"] > 0
			case "C05":
				st.NonTrivial = st.Labels["nt05"] > 0
			}
		}
		return o
	}
}

func init() {
	register(&Property{
		ID: "C18",
		Rule: "rapid-generated mixed histories (3-5 sessions; subscribe/unsubscribe/publish, register/unregister/call, kill / kill_by_authid / kill_by_authrole / kill_all with and without reason, modify_details, " +
			"testaments add/flush, departures) with one or two observers subscribed to all ten meta topics (exact, or prefix 'wamp.') and meta procedures (session/registration/subscription list, count, get, lookup, match, callees, subscribers) " +
			"called with valid and hostile arguments between the steps; judged by the broker+dealer+meta reference models: exact answers, exactly one meta event per effective change with the right arguments, per-object order " +
			"(on_create before on_subscribe/on_register, on_unsubscribe/on_unregister before on_delete), none for refused/ineffective requests, kill procedures end exactly the targets. " +
			"Non-trivial = a meta query or kill that follows a refused/ineffective request or a multi-session kill; distinct = case hash",
		Gen:       func(t *rapid.T) *Case { return genMixed(t, "C18") },
		NewOracle: fullOracle("C18", false),
		Assumptions: []string{
			"sequential histories; on_unsubscribe when a subscriber leaves is optional (only on_delete required)",
			"the router's own wamp.* registrations appear in registration.list: accepted as a constant number of extra exact ids",
			"open known finding F-killall (kill_all suppresses victims' on_leave and testaments): those expectations are optional in generated search, strict in the pinned case",
		},
	})
	register(&Property{
		ID: "C05",
		Rule: "rapid-generated mixed histories with an ending (GOODBYE, transport drop, wamp.session.kill*, protocol violation) injected at arbitrary positions for callers, callees, subscribers and testament owners, " +
			"including right after refused requests; judged (1) behaviourally by the broker+dealer+meta models (no delivery to ended sessions, calls served answered with ERROR, own calls abandoned and later progressive yields interrupted, testaments exactly once), " +
			"(2) structurally: after all sessions left and 25 virtual hours passed the H1 table-size snapshot must equal the snapshot taken right after router start. " +
			"Non-trivial = an ending of a session holding a live subscription, registration, served call, pending call or testament, or following a refused request; distinct = case hash",
		Gen: func(t *rapid.T) *Case {
			if pct(t, 12, "historyrealm") {
				return genC20(t) // a realm with event histories: subscribers of history topics come and go
			}
			return genMixed(t, "C05")
		},
		NewOracle: fullOracle("C05", true),
		Assumptions: []string{
			"H1 hook (build tag verif) reads table sizes inside the owning goroutines",
			"open known finding F-killall: kill_all victims' testaments optional in generated search",
		},
	})
}

// structCheck compares the H1 table sizes with what the models say must exist
// right now: state that outlives its reason (a refused call, an answered
// invocation, a departed session) shows up as a difference at the next
// quiescent point, not only after everybody has left.
func structCheck(e *Engine, w *World, b *brokerPart, d *dealerPart, m *metaPart, st *StepRec) *Violation {
	if len(d.greyReq) > 0 || w.st.Labels["protocol_violation_end"] > 0 && false {
		return nil
	}
	now := router.VerifSnapshot(e.R)
	for uri, base := range e.Baseline {
		cur, ok := now[uri]
		if !ok {
			continue
		}
		realm := string(uri)
		want := base
		for _, s := range w.sess {
			if s.realm == realm && s.live() {
				want.Clients++
			}
		}
		withSubs := map[int]bool{}
		for key, sb := range b.subs {
			if sb.realm != realm {
				continue
			}
			if !b.persistent[key] {
				// (the subscription of a configured event history exists from the start: it is in the baseline)
				want.Subscriptions++
				switch sb.class {
				case "prefix":
					want.PfxSubs++
				case "wildcard":
					want.WcSubs++
				default:
					want.TopicSubs++
				}
			}
			want.Subscribers += len(sb.members)
			for x := range sb.members {
				withSubs[x] = true
			}
		}
		want.SessionSubIDSet += len(withSubs)
		withRegs := map[int]bool{}
		for _, r := range d.regs {
			if r.realm != realm {
				continue
			}
			want.Registrations++
			switch r.class {
			case "prefix":
				want.PfxRegs++
			case "wildcard":
				want.WcRegs++
			default:
				want.ProcRegs++
			}
			want.Callees += len(r.members)
			for _, x := range r.members {
				withRegs[x] = true
			}
		}
		want.CalleeRegIDSet += len(withRegs)
		for _, c := range d.calls {
			if w.sess[c.caller].realm == realm {
				want.Calls++
				want.Invocations++
				want.InvocationByCall++
			}
		}
		if m != nil {
			for s, ts := range m.testaments {
				if len(ts) > 0 && w.sess[s].realm == realm && w.sess[s].live() {
					want.Testaments++
				}
			}
		}
		want.HistoryEntries = cur.HistoryEntries
		if cur != want {
			return &Violation{Prop: w.prop, Step: st.N, Reason: fmt.Sprintf("realm %s: router tables differ from what the history justifies at this quiescent point:\n  router: %+v\n  model:  %+v", uri, cur, want)}
		}
	}
	w.st.Label("struct_checks")
	return nil
}

// ---- generator ---------------------------------------------------------------

type mixGen struct {
	rpc     *rpcGen
	nsess   int
	strict  bool
	profile string
	ps      *psGen
	alive   []bool
}

func (g *mixGen) metaQuery(t *rapid.T) Op {
	s := uni(t, g.nsess, "ms")
	sidRef := func() V {
		if pct(t, 10, "bogussid") {
			return VRef("bogus:9")
		}
		return VRef(fmt.Sprintf("sid:%d", uni(t, g.nsess, "target")))
	}
	objRef := func(kind string) V {
		if pct(t, 12, "bogusobj") {
			return VRef("bogus:5")
		}
		return VRef(fmt.Sprintf("%s:%d:%d", kind, uni(t, g.nsess, "owner"), uni(t, 4, "n")))
	}
	hostile := func() []V {
		return pick(t, [][]V{nil, {VNil()}, {VStr("x")}, {VI64(-1)}, {VList(VI64(1))}, {VDict()}, {VF64(1.5)}, {VBool(true)}, {VStr("a"), VStr("b")}}, "hostile")
	}
	uriArg := func() V {
		if pct(t, 50, "pat") {
			return VStr(genPattern(t, pick(t, []string{"prefix", "wildcard"}, "pm")))
		}
		return VStr(genTopic(t))
	}
	matchOpt := func() []V {
		m := genMatch(t)
		if m == "" {
			return nil
		}
		return []V{VDict(KV{"match", VStr(m)})}
	}
	op := Op{K: "meta", S: s}
	procs := []string{"wamp.session.count", "wamp.session.list", "wamp.session.get",
		"wamp.registration.list", "wamp.registration.lookup", "wamp.registration.match", "wamp.registration.get", "wamp.registration.list_callees", "wamp.registration.count_callees",
		"wamp.subscription.list", "wamp.subscription.lookup", "wamp.subscription.match", "wamp.subscription.get", "wamp.subscription.list_subscribers", "wamp.subscription.count_suscribers", "wamp.bogus.proc"}
	op.URI = pick(t, procs, "proc")
	if pct(t, 10, "hostileargs") {
		op.Args = hostile()
		return op
	}
	switch op.URI {
	case "wamp.session.count", "wamp.session.list":
		if pct(t, 40, "rolefilter") {
			op.Args = []V{genStrList(t, []string{"trusted", "anonymous", "r1", "zz"}, "roles")}
		}
	case "wamp.session.get":
		op.Args = []V{sidRef()}
	case "wamp.registration.lookup", "wamp.subscription.lookup":
		op.Args = append([]V{uriArg()}, matchOpt()...)
	case "wamp.registration.match", "wamp.subscription.match":
		op.Args = []V{VStr(genTopic(t))}
	case "wamp.registration.get", "wamp.registration.list_callees", "wamp.registration.count_callees":
		op.Args = []V{objRef("reg")}
	case "wamp.subscription.get", "wamp.subscription.list_subscribers", "wamp.subscription.count_suscribers":
		op.Args = []V{objRef("sub")}
	}
	return op
}

func (g *mixGen) killOp(t *rapid.T) Op {
	s := uni(t, g.nsess, "ks")
	op := Op{K: "meta", S: s}
	switch uni(t, 10, "killkind") {
	case 0, 1, 2, 3, 4:
		op.URI = "wamp.session.kill"
		target := uni(t, g.nsess, "kt")
		if pct(t, 10, "selfkill") {
			target = s
		}
		op.Args = []V{VRef(fmt.Sprintf("sid:%d", target))}
		if pct(t, 8, "bogust") {
			op.Args = []V{VRef("bogus:4")}
		} else if target != s {
			g.gone(target)
		}
	case 5, 6:
		op.URI = "wamp.session.kill_by_authid"
		op.Args = []V{VStr(pick(t, []string{"u1", "u2", "zz"}, "ka"))}
	case 7, 8:
		op.URI = "wamp.session.kill_by_authrole"
		op.Args = []V{VStr(pick(t, []string{"trusted", "anonymous", "zz"}, "kr"))}
	default:
		op.URI = "wamp.session.kill_all"
	}
	if pct(t, 40, "reason") {
		op.Kw = append(op.Kw, KV{"reason", VStr(pick(t, []string{"app.kicked", "wamp.close.normal", "bad reason uri", "", "wamp.close.system_shutdown", "wamp.close.goodbye_and_out", "wamp.close.close_realm", "wamp.error.protocol_violation"}, "reasonv"))})
	}
	if pct(t, 30, "message") {
		op.Kw = append(op.Kw, KV{"message", VStr("bye")})
	}
	return op
}

func (g *mixGen) gone(s int) {
	if s >= 0 && s < g.nsess {
		g.alive[s] = false
		g.rpc.sessionGone(s)
	}
}

func (g *mixGen) testamentOp(t *rapid.T) Op {
	s := uni(t, g.nsess, "ts")
	if pct(t, 25, "flush") {
		op := Op{K: "meta", S: s, URI: "wamp.session.flush_testaments"}
		if pct(t, 40, "scope") {
			op.Kw = []KV{{"scope", VStr(pick(t, []string{"destroyed", "detached", "bogus"}, "scopev"))}}
		}
		return op
	}
	op := Op{K: "meta", S: s, URI: "wamp.session.add_testament"}
	topic := g.ps.topicFor(t)
	op.Args = []V{VStr(topic), VList(genArgs(t, valOpts{})...), V{T: "dict", K: genKw(t, valOpts{})}}
	if pct(t, 30, "scope") {
		op.Kw = append(op.Kw, KV{"scope", VStr(pick(t, []string{"destroyed", "detached"}, "scopev"))})
	}
	if pct(t, 25, "popts") {
		op.Kw = append(op.Kw, KV{"publish_options", VDict(KV{"exclude_authid", VList(VStr(pick(t, []string{"u1", "u2"}, "xa")))})})
	}
	if pct(t, 6, "badtestament") {
		op.Args = op.Args[:uni(t, 3, "cut")]
	}
	return op
}

func (g *mixGen) op(t *rapid.T) Op {
	// weights: rpc, pubsub, metaquery, kill, testament, modify, protocol violation
	w := []int{30, 28, 26, 6, 5, 3, 2}
	if g.profile == "C05" {
		w = []int{42, 24, 6, 10, 9, 2, 7}
	}
	k := uni(t, sum(w), "mixk")
	idx := 0
	for i, x := range w {
		if k < x {
			idx = i
			break
		}
		k -= x
		idx = i
	}
	switch idx {
	case 0:
		op := g.rpc.op(t)
		if op.K == "goodbye" || op.K == "drop" {
			g.gone(op.S)
		}
		return op
	case 1:
		op := g.ps.op(t)
		if op.K == "goodbye" || op.K == "drop" {
			g.gone(op.S)
		}
		return op
	case 2:
		return g.metaQuery(t)
	case 3:
		return g.killOp(t)
	case 4:
		return g.testamentOp(t)
	case 5:
		s := uni(t, g.nsess, "mods")
		return Op{K: "meta", S: s, URI: "wamp.session.modify_details", Args: []V{VRef(fmt.Sprintf("sid:%d", uni(t, g.nsess, "modt"))),
			VDict(KV{pick(t, []string{"authid", "org", "team", "authrole"}, "modk"), pick(t, []V{VStr("u1"), VStr("u2"), VStr("x"), VNil()}, "modv")})}}
	default:
		// protocol violation: a message a client must never send
		s := uni(t, g.nsess, "pvs")
		g.gone(s)
		return Op{K: "raw", S: s, Msg: pick(t, []*RawMsg{
			{Type: 2, Fields: []V{VID(5), VDict()}},                       // WELCOME
			{Type: 8, Fields: []V{VI64(48), VID(1), VDict(), VURI("a.b")}}, // ERROR of type CALL
			{Type: 36, Fields: []V{VID(1), VID(2), VDict()}},               // EVENT
			{Type: 1, Fields: []V{VURI("r1"), VDict()}},                    // second HELLO
		}, "pvmsg")}
	}
}

func genMixed(t *rapid.T, profile string) *Case {
	strict := pct(t, 20, "strict")
	c := &Case{Realms: []RealmCfg{{URI: "r1", Strict: strict, Anonymous: true, AllowDisclose: rapid.Bool().Draw(t, "allowDisclose"),
		MetaKill: pct(t, 92, "metakill"), MetaModify: pct(t, 85, "metamodify")}}}
	n := 3 + uni(t, 3, "nsess")
	c.Sess = genRPCSessions(t, "r1", n, true)
	for i := range c.Sess {
		if pct(t, 60, "full") {
			c.Sess[i].Roles = fullRoles()
		}
		if pct(t, 30, "org") {
			c.Sess[i].Hello = append(c.Sess[i].Hello, KV{"org", VStr(pick(t, []string{"x", "y"}, "orgv"))})
		}
	}
	var callers, callees []int
	for i := 0; i < n; i++ {
		if i%2 == 0 {
			callers = append(callers, i)
		} else {
			callees = append(callees, i)
		}
	}
	g := &mixGen{rpc: newRPCGen(n, strict, "C02", callers, callees), nsess: n, strict: strict, profile: profile, alive: make([]bool, n), ps: &psGen{nsess: n, strict: strict}}
	// observers
	if profile == "C18" || pct(t, 30, "observer") {
		if pct(t, 70, "exactobs") {
			for _, tp := range metaTopics {
				c.Ops = append(c.Ops, Op{K: "subscribe", S: 0, URI: tp})
			}
		} else {
			c.Ops = append(c.Ops, Op{K: "subscribe", S: 0, URI: "wamp.", Mode: "prefix"})
		}
		if pct(t, 35, "obs2") {
			for _, tp := range metaTopics {
				if pct(t, 50, "obs2topic") {
					c.Ops = append(c.Ops, Op{K: "subscribe", S: n - 1, URI: tp})
				}
			}
		}
	}
	if profile == "C18" && pct(t, 12, "historyrealm") {
		// two topics of the generator's alphabet keep an event history; session 0 subscribes
		// first, so that the subscription ids are known before anybody asks the meta API
		c.Realms[0].History = []HistCfg{{Topic: "a.b", Limit: 2}, {Topic: "a", Match: "prefix", Limit: 2}}
		c.Ops = append(c.Ops, Op{K: "subscribe", S: 0, URI: "a.b"}, Op{K: "subscribe", S: 0, URI: "a", Mode: "prefix"})
	}
	ops := rapid.SliceOfN(rapid.Custom(func(t *rapid.T) Op { return g.op(t) }), minHistory(t, 35), 35).Draw(t, "ops")
	c.Ops = append(c.Ops, ops...)
	if profile == "C05" && pct(t, 10, "blockedcallee") {
		appendBlockedCallee(t, c)
	}
	return c
}
