package harness

// C11 — nothing crosses realm boundaries. Differential non-interference:
// what realm A's sessions observe when realm B's sessions run alongside
// (using the same URIs, coinciding ids, and requests aimed at A's objects)
// must equal what they observe alone.

import (
	"fmt"
	"regexp"
	"strconv"
	"strings"
	"testing"

	"github.com/gammazero/nexus/v3/wamp"
	"pgregory.net/rapid"
)

func init() {
	register(&Property{
		ID: "C11",
		Rule: "rapid-generated two-realm histories: identical realm configurations (so per-realm subscription/registration ids coincide), the same URIs in both, sessions interleaved; realm B additionally aims at A: UNSUBSCRIBE/UNREGISTER with A's ids, " +
			"YIELD/ERROR with A's invocation ids, CANCEL of A's request ids, wamp.session.kill / exclude / eligible naming A's session ids, meta queries for A's ids, RemoveRealm(B) and AddRealm mid-history. Each case runs twice in one bubble: with B and without B. " +
			"Oracle: per step the canonical observations of A's sessions are equal in both runs; no session of B ever receives a message containing a session id of A (catch-all prefix and meta-topic observers included); B's kills never end A's sessions. " +
			"Non-trivial = both realms hold live subscriptions or registrations on identical URIs and B issued >=1 request aimed at A; distinct = case hash",
		Gen:  genC11,
		Exec: execC11,
		Assumptions: []string{
			"random invocation policy is not generated (the two runs must make the same callee choice)",
			"observations are compared as per-step multisets per session, ids renamed by first appearance",
		},
	})
}

var refRe = regexp.MustCompile(`^(sid|sub|reg|call|inv):(-?\d+)(.*)$`)

func shiftRef(r string, by int) string {
	m := refRe.FindStringSubmatch(r)
	if m == nil {
		return r
	}
	n, _ := strconv.Atoi(m[2])
	if n >= 0 {
		n += by
	}
	return fmt.Sprintf("%s:%d%s", m[1], n, m[3])
}

func shiftV(v V, by int) V {
	if v.T == "ref" {
		v.S = shiftRef(v.S, by)
	}
	if len(v.L) > 0 {
		l := make([]V, len(v.L))
		for i := range v.L {
			l[i] = shiftV(v.L[i], by)
		}
		v.L = l
	}
	if len(v.K) > 0 {
		k := make([]KV, len(v.K))
		for i := range v.K {
			k[i] = KV{v.K[i].K, shiftV(v.K[i].V, by)}
		}
		v.K = k
	}
	return v
}

func shiftOp(op Op, by int) Op {
	if op.K != "advance" {
		op.S += by
	}
	op.Ref = shiftRef(op.Ref, by)
	for i := range op.Args {
		op.Args = append([]V(nil), op.Args...)
		op.Args[i] = shiftV(op.Args[i], by)
	}
	if len(op.Opts) > 0 {
		o := make([]KV, len(op.Opts))
		for i := range op.Opts {
			o[i] = KV{op.Opts[i].K, shiftV(op.Opts[i].V, by)}
		}
		op.Opts = o
	}
	if len(op.Kw) > 0 {
		o := make([]KV, len(op.Kw))
		for i := range op.Kw {
			o[i] = KV{op.Kw[i].K, shiftV(op.Kw[i].V, by)}
		}
		op.Kw = o
	}
	return op
}

func genC11(t *rapid.T) *Case {
	strict := false
	rc := RealmCfg{Anonymous: true, RequireLocalAuth: true, Auths: []string{"static"}, Users: c01Users, AllowDisclose: rapid.Bool().Draw(t, "ad"), MetaKill: true, MetaModify: true}
	if pct(t, 50, "history") {
		rc.History = []HistCfg{{Topic: "a.b", Limit: 3}, {Topic: "a", Match: "prefix", Limit: 2}}
	}
	ra, rb := rc, rc
	ra.URI, rb.URI = "r1", "r2"
	c := &Case{Realms: []RealmCfg{ra, rb}}
	switch k := uni(t, 100, "realmsource"); {
	case k < 20:
		// B is created from the realm template
		c.Realms = []RealmCfg{ra}
		tc := rc
		tc.URI = "template"
		c.Template = &tc
	case k < 40:
		// both realms are created from the one template: they share whatever the
		// configuration refers to by pointer
		c.Realms = nil
		tc := rc
		tc.URI = "template"
		c.Template = &tc
	}
	nA, nB := 2+uni(t, 2, "nA"), 1+uni(t, 3, "nB")
	mkSess := func(realm string) SessCfg {
		s := SessCfg{Realm: realm, Roles: fullRoles(), AuthMeth: []string{"static"}, Hello: []KV{{"authid", VStr(pick(t, []string{"u1", "u2"}, "authid"))}}}
		if pct(t, 35, "remote") {
			s.Transport = pick(t, remoteTransports, "tr")
		}
		return s
	}
	for i := 0; i < nA; i++ {
		c.Sess = append(c.Sess, mkSess("r1"))
	}
	for i := 0; i < nB; i++ {
		c.Sess = append(c.Sess, mkSess("r2"))
	}
	mkGen := func(n int) *mixGen {
		var callers, callees []int
		for i := 0; i < n; i++ {
			if i%2 == 0 {
				callers = append(callers, i)
			} else {
				callees = append(callees, i)
			}
		}
		return &mixGen{rpc: newRPCGen(n, strict, "deterministic", callers, callees), nsess: n, strict: strict, profile: "C18", alive: make([]bool, n), ps: &psGen{nsess: n, strict: strict}}
	}
	gA, gB := mkGen(nA), mkGen(nB)
	// observers: one catch-all + meta observer per realm
	c.Ops = append(c.Ops, Op{K: "subscribe", S: 0, URI: "", Mode: "prefix"}, Op{K: "subscribe", S: nA, URI: "", Mode: "prefix"})
	if len(rc.History) > 0 {
		// A's session 1 holds the subscriptions whose history is retained (its subscriptions 0 and 1)
		c.Ops = append(c.Ops, Op{K: "subscribe", S: 1, URI: "a.b"}, Op{K: "subscribe", S: 1, URI: "a", Mode: "prefix"})
	}
	aimed := func(t *rapid.T) Op {
		s := nA + uni(t, nB, "bs")
		who := uni(t, nA, "victim")
		switch uni(t, 9, "aim") {
		case 0:
			return Op{K: "unsubscribe", S: s, Ref: fmt.Sprintf("sub:%d:%d", who, uni(t, 3, "n"))}
		case 1:
			return Op{K: "unregister", S: s, Ref: fmt.Sprintf("reg:%d:%d", who, uni(t, 3, "n"))}
		case 2:
			return Op{K: "yield", S: s, Ref: fmt.Sprintf("inv:%d:%d", who, uni(t, 3, "n")), Args: []V{VStr("from-b")}}
		case 3:
			return Op{K: "error", S: s, Ref: fmt.Sprintf("inv:%d:%d", who, uni(t, 3, "n")), Err: "b.error"}
		case 4:
			return Op{K: "cancel", S: s, Ref: fmt.Sprintf("call:%d:%d", who, uni(t, 3, "n")), Mode: pick(t, []string{"skip", "kill", "killnowait"}, "cm")}
		case 5:
			return Op{K: "meta", S: s, URI: pick(t, []string{"wamp.session.kill", "wamp.session.get", "wamp.session.modify_details"}, "mp"), Args: []V{VRef(fmt.Sprintf("sid:%d", who)), VDict(KV{"authid", VStr("pwned")})}}
		case 6:
			return Op{K: "publish", S: s, URI: genTopic(t), Opts: []KV{{"eligible", VList(VRef(fmt.Sprintf("sid:%d", who)))}, {"acknowledge", VBool(true)}}, Args: []V{VStr("from-b")}}
		case 7:
			return Op{K: "meta", S: s, URI: pick(t, []string{"wamp.subscription.get", "wamp.subscription.list_subscribers", "wamp.registration.get", "wamp.registration.list_callees"}, "mq"),
				Args: []V{VRef(fmt.Sprintf("%s:%d:%d", pick(t, []string{"sub", "reg"}, "kind"), who, uni(t, 3, "n")))}}
		default:
			return Op{K: "meta", S: s, URI: pick(t, []string{"wamp.session.kill_all", "wamp.session.kill_by_authid", "wamp.session.list", "wamp.session.count"}, "mk"), Args: []V{VStr("u1")}}
		}
	}
	seenA := map[string][]Op{}
	ops := rapid.SliceOfN(rapid.Custom(func(t *rapid.T) Op {
		switch k := uni(t, 100, "who"); {
		case k < 12 && len(rc.History) > 0:
			// the retained history of A's topics, as A sees it
			if pct(t, 40, "bpub") {
				// the same topics are published to in B
				return Op{K: "publish", S: nA + uni(t, nB, "hbs"), URI: pick(t, []string{"a.b", "a.b", "a.a"}, "hbt"), Args: []V{VStr("from-b")}, Opts: []KV{{"acknowledge", VBool(true)}}, N: 555}
			}
			return Op{K: "meta", S: uni(t, nA, "hs"), URI: "wamp.subscription.get_events", Args: []V{VRef(fmt.Sprintf("sub:1:%d", uni(t, 2, "hn")))}}
		case k < 16:
			// a kill in A that names neither reason nor message (it may follow a kill_all in B)
			return Op{K: "meta", S: uni(t, nA, "ks"), URI: pick(t, []string{"wamp.session.kill", "wamp.session.kill_by_authid"}, "kproc"),
				Args: []V{pick(t, []V{VRef(fmt.Sprintf("sid:%d", uni(t, nA, "kv"))), VStr("u1")}, "karg")}}
		case k < 20:
			return Op{K: "meta", S: nA + uni(t, nB, "kbs"), URI: "wamp.session.kill_all", N: 555}
		case k < 45:
			op := gA.op(t)
			switch op.K {
			case "subscribe", "register", "publish", "call":
				seenA[op.K] = append(seenA[op.K], op)
			}
			return op
		case k < 75:
			op := shiftOp(gB.op(t), nA)
			// mirror realm A: the same URIs (and policies) are in use in both realms
			if prev := seenA[op.K]; len(prev) > 0 && pct(t, 65, "mirror") {
				p := pick(t, prev, "mirrorof")
				op.URI, op.Mode = p.URI, p.Mode
			}
			return op
		case k < 94:
			op := aimed(t)
			op.N = 555
			return op
		case k < 97:
			return Op{K: "remove_realm", S: nA, URI: "r2", N: 555}
		default:
			return Op{K: "add_realm", S: nA, URI: "r2", N: 555}
		}
	}), minHistory(t, 30), 30).Draw(t, "ops")
	c.Ops = append(c.Ops, ops...)
	if nA >= 3 && pct(t, 35, "latejoin") {
		// a session of A that joins late - possibly while B is being removed
		late := nA - 1
		c.Sess[late].NoJoin = true
		pos := uni(t, len(c.Ops)+1, "latepos")
		if nB >= 2 && pct(t, 50, "slowremove") {
			// B's shutdown takes time: one of its session handlers is inside the
			// result-retry loop for a caller that does not read. Nobody in A may notice.
			bc, be := nA, nA+1
			c.Sess[bc].QSize, c.Sess[bc].Transport = 2, ""
			c.Sess[be].Transport = ""
			var sc []Op
			sc = append(sc, Op{K: "add_realm", S: nA, URI: "r2", N: 555},
				Op{K: "register", S: be, URI: "verif.hold", N: 555},
				Op{K: "subscribe", S: bc, URI: "verif.fill", N: 555},
				Op{K: "call", S: bc, URI: "verif.hold", N: 555},
				Op{K: "stall", S: bc, N: 555})
			for i := 0; i < 4; i++ {
				sc = append(sc, Op{K: "publish", S: be, URI: "verif.fill", Args: []V{VInt(i)}, N: 555})
			}
			sc = append(sc, Op{K: "yield", S: be, Ref: "inv:-1:-1", Args: []V{VStr("late")}, N: 555},
				Op{K: "remove_realm", S: nA, URI: "r2", N: 555},
				Op{K: "join", S: late},
				Op{K: "publish", S: late, URI: "a.b", Opts: []KV{{"acknowledge", VBool(true)}}},
				Op{K: "advance", Ns: 70e9})
			c.Ops = append(c.Ops, sc...)
		} else {
			merged := append([]Op{}, c.Ops[:pos]...)
			if pct(t, 50, "removefirst") {
				merged = append(merged, Op{K: "remove_realm", S: nA, URI: "r2", N: 555})
			}
			merged = append(merged, Op{K: "join", S: late})
			c.Ops = append(merged, c.Ops[pos:]...)
		}
	}
	c.Ops = noOrderDependentTestaments(c.Ops)
	c.P = map[string]V{"nA": VInt(nA)}
	if len(c.Realms) == 2 && nA >= 3 && pct(t, 12, "reuseconfig") {
		// The embedding application keeps one RealmConfig value: after removing B it overwrites
		// the object it configured A with (other meta settings) and adds B again with it.
		// What A's sessions see in session meta events and answers must not change.
		c.Realms[0].MetaStrict, c.Realms[1].MetaStrict = true, false
		for i := 0; i < nA; i++ {
			c.Sess[i].Hello = append(c.Sess[i].Hello, KV{"org", VStr("x")})
		}
		late := nA - 1
		c.Sess[late].NoJoin = true
		var kept []Op
		for _, op := range c.Ops {
			if !(op.K == "join" && op.S == late) {
				kept = append(kept, op)
			}
		}
		c.Ops = append(kept, Op{K: "remove_realm", S: nA, URI: "r2", N: 555}, Op{K: "add_realm", S: nA, URI: "r2", N: 555},
			Op{K: "join", S: late}, Op{K: "meta", S: 0, URI: "wamp.session.get", Args: []V{VRef(fmt.Sprintf("sid:%d", late))}})
		c.P["reuse_config"] = VBool(true)
	}
	return c
}

func containsID(x any, ids map[int64]bool) bool {
	switch v := x.(type) {
	case int64:
		return ids[v]
	case map[string]any:
		for _, e := range v {
			if containsID(e, ids) {
				return true
			}
		}
	case []any:
		for _, e := range v {
			if containsID(e, ids) {
				return true
			}
		}
	}
	return false
}

func execC11(t *testing.T, c *Case, trace bool) Verdict {
	v := Verdict{Kind: "ok", Prop: "C11"}
	nA := c.P["nA"].Go().(int)
	// realm A alone first: whatever process-wide state realm B may leave behind must not be there yet
	c2 := *c
	if len(c.Realms) > 0 {
		c2.Realms = c.Realms[:1]
		c2.Template = nil
	} // else: A itself comes from the template; B is simply never created
	c2.Sess = append([]SessCfg(nil), c.Sess...)
	for i := nA; i < len(c2.Sess); i++ {
		c2.Sess[i].NoJoin = true
	}
	c2.Ops = append([]Op(nil), c.Ops...)
	for i := range c2.Ops {
		op := &c2.Ops[i]
		if op.K != "advance" && op.S >= nA {
			*op = Op{K: "nop", S: op.S}
		}
	}
	e2 := NewEngine(&c2)
	e2.KeepTrace = trace
	r2 := &recordOracle{}
	if viol := e2.Run(r2); viol != nil {
		return Verdict{Kind: "violation", Prop: "C11", Reason: "run with realm A alone failed: " + viol.Reason}
	}
	// then both realms
	e1 := NewEngine(c)
	e1.KeepTrace = trace
	r1 := &recordOracle{}
	if viol := e1.Run(r1); viol != nil {
		return Verdict{Kind: "violation", Prop: "C11", Reason: "run with both realms failed: " + viol.Reason}
	}
	if trace {
		v.Trace = append(append([]string{"=== both realms"}, e1.Trace...), append([]string{"=== realm A alone"}, e2.Trace...)...)
	}
	fail := func(format string, a ...any) Verdict {
		return Verdict{Kind: "violation", Prop: "C11", Reason: fmt.Sprintf(format, a...), Trace: v.Trace}
	}
	// A's observations. Run 2 has nB fewer join steps: drop B's join steps from run 1.
	// (prologue join steps exist only for sessions that join at the start)
	jA, jB := 0, 0
	for i, sc := range c.Sess {
		if sc.NoJoin {
			continue
		}
		if i < nA {
			jA++
		} else {
			jB++
		}
	}
	steps1 := append(append([]map[int][]wamp.Message{}, r1.steps[:jA]...), r1.steps[jA+jB:]...)
	onlyA := func(steps []map[int][]wamp.Message) []map[int][]wamp.Message {
		out := make([]map[int][]wamp.Message, len(steps))
		for i, st := range steps {
			out[i] = map[int][]wamp.Message{}
			for s, ms := range st {
				if s < nA {
					out[i][s] = ms
				}
			}
		}
		return out
	}
	la, lb := canonTrace(onlyA(steps1), nA), canonTrace(onlyA(r2.steps), nA)
	if d := firstDiff(la, lb); d != "" {
		return fail("sessions of realm r1 observe something different when realm r2 is active: %s", d)
	}
	// B never sees A's session ids
	aIDs := map[int64]bool{}
	for i := 0; i < nA; i++ {
		if id := e1.Sess[i].SID; id != 0 {
			aIDs[int64(id)] = true
		}
	}
	for si, st := range r1.steps {
		for s, ms := range st {
			if s < nA {
				continue
			}
			for _, m := range ms {
				if _, isWelcome := m.(*wamp.Welcome); isWelcome {
					continue
				}
				for _, f := range reflectFields(m) {
					if containsID(Canon(f), aIDs) {
						return fail("session %d of realm r2 received a message that names a session of realm r1 (step %d): %s", s, si, MsgString(m))
					}
				}
			}
		}
	}
	// non-triviality
	uriA, uriB := map[string]bool{}, map[string]bool{}
	aimedN := 0
	for _, op := range c.Ops {
		if op.N == 555 {
			aimedN++
		}
		if op.K == "subscribe" || op.K == "register" {
			key := op.K + "|" + op.Mode + "|" + op.URI
			if op.S < nA {
				uriA[key] = true
			} else {
				uriB[key] = true
			}
		}
	}
	shared := false
	for k := range uriA {
		if uriB[k] && !strings.HasSuffix(k, "|prefix|") {
			shared = true
		}
	}
	v.Stats.Label(fmt.Sprintf("aimed_ops:%d", min(aimedN, 5)))
	if shared {
		v.Stats.Label("shared_uris")
	}
	v.Stats.NonTrivial = shared && aimedN > 0
	return v
}
