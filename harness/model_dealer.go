package harness

// Reference dealer model (C02 C03 C13, reused by C05 C10 C11 C12 C15 C18):
// registrations with policy and member order, best-match resolution, pending
// calls with cancel and timeout state, and the exact INVOCATION / INTERRUPT /
// RESULT / ERROR expectations per step. Where the statement leaves a choice
// (random policy, which wildcard, round-robin after a membership change) the
// model accepts any member of the allowed set and follows the observed choice.

import (
	"fmt"
	"sort"
	"strings"
	"time"

	"github.com/gammazero/nexus/v3/wamp"
)

type mReg struct {
	id             wamp.ID
	realm          string
	uri            string
	class          string
	policy         string
	disclose       bool
	forwardTimeout bool
	members        []int // registration order
	rrLast         int   // index into members of the last round-robin choice, -1 unknown
	created        int
}

type ck struct {
	s  int
	id wamp.ID
}

type mCall struct {
	caller      int
	req         wamp.ID
	callee      int
	inv         wamp.ID
	reg         *mReg
	killPending bool
	deadline    time.Duration // router-handled timeout, 0 none
	timeoutMs   int64
	grey        bool
	events      int // competing events seen (for non-triviality)
	startedAt   time.Duration
	progressive bool // caller may still send further chunks
	recvProgress bool // the INVOCATION told the callee that progress is wanted
	hadTimeout  bool
	// answered: the callee answered finally while the caller was still streaming
	// chunks of a progressive call invocation. The caller has its one final
	// reply; nothing more may reach it for this request whatever the callee does.
	answered bool
}

type dealerPart struct {
	regs      map[string]*mReg // realm|class|uri
	byID      map[string]*mReg // realm|id
	calls     map[ck]*mCall    // (caller, request)
	invs      map[ck]*mCall    // (callee, invocation id)
	abandoned map[ck]bool      // (callee, invocation id) whose call is gone
	usedInv   map[int]map[wamp.ID]bool
	metaReq   map[ck]bool // (caller, request) of calls to wamp.* procedures
	greyReq   map[ck]bool
	greyInv   map[ck]bool
	hasMeta   bool // a meta part handles wamp.* calls
	handledProcs map[string]bool // individual wamp.* procedures judged by another part
	// hooks for the meta-event model (C18)
	onCreate     func(st *StepRec, s int, r *mReg)
	onRegister   func(st *StepRec, s int, r *mReg)
	onUnregister func(st *StepRec, s int, r *mReg)
	onDelete     func(st *StepRec, s int, r *mReg)
	// C12 hook: extra checks on invocation details; "" if fine
	checkInvDetails func(c *mCall, callMsg *wamp.Call, inv *wamp.Invocation) string
	// stats
	finalDue map[ck]int // (caller, req) -> number of final replies the model demanded
	stalledCalls     int
	greyParty        map[int]bool // callees that may hold invocations the model does not know
	maxEvents        int // most competing events seen on one call
	maxEventsTimeout int // same, among calls that carried a timeout or saw a cancel
	// held: final results the router could not hand to a caller whose queue was
	// (exactly known to be) full; the router retries them at yieldT + (2^k - 1) ms
	// until the result-retry period (one minute) is over
	held map[ck]*heldResult
}

// heldResult is a final RESULT waiting for room in its caller's queue.
type heldResult struct {
	caller, callee int
	req, inv       wamp.ID
	yieldT         time.Duration
	resumeT        time.Duration // when the caller was first seen reading again; -1 not yet
	match          func(wamp.Message) bool
}

// retryInstants: the router re-offers a blocked RESULT 1, 3, 7, ... (2^k - 1) ms
// after the first attempt; the first attempt made at or after the one-minute
// period is the last one.
func (h *heldResult) firstRetryAfter(t time.Duration) (at time.Duration, last bool, none bool) {
	for k := 1; k < 40; k++ {
		off := time.Duration((int64(1)<<k)-1) * time.Millisecond
		isLast := off >= time.Minute
		if h.yieldT+off > t {
			return h.yieldT + off, isLast, false
		}
		if isLast {
			break
		}
	}
	return 0, false, true
}

func newDealerPart(w *World) *dealerPart {
	return &dealerPart{regs: map[string]*mReg{}, byID: map[string]*mReg{}, calls: map[ck]*mCall{}, invs: map[ck]*mCall{},
		handledProcs: map[string]bool{}, greyParty: map[int]bool{}, abandoned: map[ck]bool{}, usedInv: map[int]map[wamp.ID]bool{}, metaReq: map[ck]bool{}, greyReq: map[ck]bool{}, greyInv: map[ck]bool{}, finalDue: map[ck]int{}, held: map[ck]*heldResult{}}
}

// dropHeld gives up exact judgement of a held result (something else happened
// to the call or its parties meanwhile): whatever arrives for it is accepted.
func (d *dealerPart) dropHeld(w *World, h *heldResult, why string) {
	delete(d.held, ck{h.caller, h.req})
	d.greyReq[ck{h.caller, h.req}] = true
	d.greyInv[ck{h.callee, h.inv}] = true
	w.st.Label("grey:held_result_" + why)
}

func (d *dealerPart) Ignore(w *World, s int, m wamp.Message) bool {
	switch m := m.(type) {
	case *wamp.Result:
		return (!d.hasMeta && d.metaReq[ck{s, m.Request}]) || d.greyReq[ck{s, m.Request}]
	case *wamp.Error:
		if m.Type == wamp.CALL {
			return (!d.hasMeta && d.metaReq[ck{s, m.Request}]) || d.greyReq[ck{s, m.Request}]
		}
	case *wamp.Interrupt:
		if d.greyInv[ck{s, m.Request}] {
			return true
		}
		// a callee that took part in a call outside the exact model (silent party):
		// the INTERRUPT of that call carries an invocation id the model never saw
		if d.greyParty[s] && !d.usedInv[s][m.Request] {
			// (an invocation id the model routed itself is judged exactly, also after
			// the model has finished the call in this very step)
			if _, live := d.invs[ck{s, m.Request}]; !live {
				return true
			}
		}
	case *wamp.Invocation:
		if d.greyInv[ck{s, m.Request}] {
			return true // a further chunk of a call the model gave up on
		}
		if d.greyParty[s] {
			if _, live := d.invs[ck{s, m.Request}]; !live && !d.usedInv[s][m.Request] {
				return true
			}
		}
	}
	return false
}

func (d *dealerPart) finish(c *mCall, abandonInv bool) {
	if c.events > d.maxEvents {
		d.maxEvents = c.events
	}
	if c.hadTimeout && c.events > d.maxEventsTimeout {
		d.maxEventsTimeout = c.events
	}
	delete(d.calls, ck{c.caller, c.req})
	delete(d.invs, ck{c.callee, c.inv})
	if abandonInv {
		d.abandoned[ck{c.callee, c.inv}] = true
	}
}

func (d *dealerPart) markGrey(w *World, c *mCall, why string) {
	c.grey = true
	d.greyReq[ck{c.caller, c.req}] = true
	d.greyInv[ck{c.callee, c.inv}] = true
	d.finish(c, false)
	w.st.Label("grey:" + why)
}

func containsInt(xs []int, v int) bool {
	for _, x := range xs {
		if x == v {
			return true
		}
	}
	return false
}

func isCallError(x wamp.Message, req wamp.ID, uri wamp.URI) bool {
	er, ok := x.(*wamp.Error)
	return ok && er.Type == wamp.CALL && er.Request == req && (uri == "" || er.Error == uri)
}

func (d *dealerPart) removeMember(w *World, st *StepRec, r *mReg, idx int) {
	for i, m := range r.members {
		if m == idx {
			r.members = append(r.members[:i:i], r.members[i+1:]...)
			break
		}
	}
	r.rrLast = -1
	if d.onUnregister != nil {
		d.onUnregister(st, idx, r)
	}
	if len(r.members) == 0 {
		delete(d.regs, subKey(r.realm, r.class, r.uri))
		delete(d.byID, idKey(r.realm, r.id))
		if d.onDelete != nil {
			d.onDelete(st, idx, r)
		}
	}
}

func (d *dealerPart) OnEnded(w *World, st *StepRec, idx int, exp Exp) {
	realm := w.sess[idx].realm
	for _, h := range d.heldSorted() {
		if h.caller == idx || h.callee == idx {
			d.dropHeld(w, h, "party_ended")
		}
	}
	// registrations
	keys := make([]string, 0, len(d.regs))
	for k := range d.regs {
		keys = append(keys, k)
	}
	sort.Strings(keys)
	for _, k := range keys {
		r := d.regs[k]
		if r.realm != realm {
			continue
		}
		for _, m := range r.members {
			if m == idx {
				w.st.Label("nt05")
				w.st.Label("ended_with_registration")
				d.removeMember(w, st, r, idx)
				break
			}
		}
	}
	// calls it was serving: each caller gets an error
	var served []*mCall
	for _, c := range d.invs {
		if c.callee == idx {
			served = append(served, c)
		}
	}
	sort.Slice(served, func(i, j int) bool { return served[i].inv < served[j].inv })
	for _, c := range served {
		c := c
		if c.answered {
			// already answered finally: the caller gets nothing more
			d.finish(c, false)
			continue
		}
		c.events++
		w.st.Label("nt05")
		if w.sess[c.caller].live() {
			req := c.req
			exp.must(c.caller, fmt.Sprintf("ERROR{CALL req=%d} because the callee's session ended", req), func(x wamp.Message) bool { return isCallError(x, req, "") })
			d.finalDue[ck{c.caller, c.req}]++
			if c.killPending {
				w.st.Label("callee_left_with_kill_pending")
			}
			w.st.Label("callee_left_serving_call")
		} else if c.caller == idx {
			// a session that called itself and is leaving may still see the error
			req := c.req
			exp.may(c.caller, "ERROR{CALL} for its own call to itself", func(x wamp.Message) bool { return isCallError(x, req, "") })
		}
		d.finish(c, false)
	}
	// its own pending calls are abandoned
	var own []*mCall
	for _, c := range d.calls {
		if c.caller == idx {
			own = append(own, c)
		}
	}
	for _, c := range own {
		inv := c.inv
		exp.may(c.callee, fmt.Sprintf("INTERRUPT{req=%d} (caller gone)", inv), func(x wamp.Message) bool {
			i, ok := x.(*wamp.Interrupt)
			return ok && i.Request == inv
		})
		d.finish(c, true)
		w.st.Label("nt05")
		w.st.Label("caller_left_with_pending_call")
	}
}

// resolve returns the registrations a call to proc may be routed to under the
// best-match rule: exact, else longest matching prefix, else any matching wildcard.
func (d *dealerPart) resolve(realm, proc string) []*mReg {
	if r := d.regs[subKey(realm, "exact", proc)]; r != nil {
		return []*mReg{r}
	}
	var best *mReg
	for _, r := range d.regs {
		if r.realm == realm && r.class == "prefix" && modelPrefixMatch(proc, r.uri) {
			if best == nil || len(r.uri) > len(best.uri) {
				best = r
			}
		}
	}
	if best != nil {
		return []*mReg{best}
	}
	var wc []*mReg
	for _, r := range d.regs {
		if r.realm == realm && r.class == "wildcard" && modelWildcardMatch(proc, r.uri) {
			wc = append(wc, r)
		}
	}
	sort.Slice(wc, func(i, j int) bool { return wc[i].id < wc[j].id })
	return wc
}

// allowedCallees returns the members the policy allows for the next call.
func allowedCallees(r *mReg) []int {
	if len(r.members) <= 1 {
		return r.members
	}
	switch r.policy {
	case "first":
		return r.members[:1]
	case "last":
		return r.members[len(r.members)-1:]
	case "roundrobin":
		if r.rrLast >= 0 {
			return []int{r.members[(r.rrLast+1)%len(r.members)]}
		}
		return r.members
	}
	return r.members // random (and anything else): any member
}

func (d *dealerPart) OnSent(w *World, st *StepRec, sr sentRec, exp Exp) *Violation {
	ms := w.sess[sr.S]
	realm := ms.realm
	rc := w.realm(sr.S)
	switch m := sr.Msg.(type) {
	case *wamp.Register:
		return d.onRegisterMsg(w, st, sr.S, realm, rc, m, exp)
	case *wamp.Unregister:
		req := m.Request
		r := d.byID[idKey(realm, m.Registration)]
		isErr := func(x wamp.Message) bool {
			er, ok := x.(*wamp.Error)
			return ok && er.Type == wamp.UNREGISTER && er.Request == req && er.Error == wamp.ErrNoSuchRegistration
		}
		isOK := func(x wamp.Message) bool {
			u, ok := x.(*wamp.Unregistered)
			return ok && u.Request == req
		}
		member := false
		if r != nil {
			for _, x := range r.members {
				if x == sr.S {
					member = true
				}
			}
		}
		switch {
		case r == nil:
			w.st.Label("unregister_unknown")
			exp.must(sr.S, fmt.Sprintf("ERROR{UNREGISTER req=%d no_such_registration}", req), isErr)
		case member:
			d.removeMember(w, st, r, sr.S)
			exp.must(sr.S, fmt.Sprintf("UNREGISTERED{req=%d}", req), isOK)
			w.st.Label("unregister_own")
		default:
			w.st.Label("unregister_foreign")
			exp.must(sr.S, "UNREGISTERED or ERROR no_such_registration", func(x wamp.Message) bool { return isErr(x) || isOK(x) })
		}
	case *wamp.Call:
		return d.onCallMsg(w, st, sr.S, realm, rc, m, exp)
	case *wamp.Cancel:
		req := m.Request
		modeV, has := m.Options["mode"]
		mode, isStr := wamp.AsString(modeV)
		if has && !isStr {
			// non-string mode: outside the statement (C04 only)
			if c := d.calls[ck{sr.S, req}]; c != nil {
				d.markGrey(w, c, "nonstring_cancel_mode")
			}
			exp.may(sr.S, "any reply to CANCEL with a non-string mode", func(x wamp.Message) bool {
				er, ok := x.(*wamp.Error)
				return ok && er.Type == wamp.CANCEL
			})
			return nil
		}
		switch mode {
		case "":
			mode = "killnowait"
		case "skip", "kill", "killnowait":
		default:
			w.st.Label("cancel_unknown_mode")
			exp.must(sr.S, fmt.Sprintf("ERROR{CANCEL req=%d wamp.error.invalid_argument}", req), func(x wamp.Message) bool {
				er, ok := x.(*wamp.Error)
				return ok && er.Type == wamp.CANCEL && er.Request == req && er.Error == wamp.ErrInvalidArgument
			})
			return nil
		}
		if h := d.held[ck{sr.S, req}]; h != nil {
			d.dropHeld(w, h, "cancelled")
			return nil
		}
		c := d.calls[ck{sr.S, req}]
		if c == nil {
			if d.greyReq[ck{sr.S, req}] {
				// a call the model does not follow (a silent session was involved): its callee
				// may be sent an INTERRUPT, which takes a place in a silent callee's queue
				for x := range w.stalled {
					w.unsure[x] = true
				}
			}
			w.st.Label("cancel_no_such_call")
			return nil
		}
		if c.answered {
			d.markGrey(w, c, "cancel_after_final_result_of_streaming_call")
			return nil
		}
		if c.killPending {
			w.st.Label("cancel_repeated")
			return nil
		}
		calleeFull := false
		if w.stalled[c.callee] && mode != "skip" {
			x := c.callee
			if w.sess[x].local && !w.unsure[x] && len(w.backlog[x]) >= w.queueCap(x) && len(exp[x]) == 0 {
				// the silent callee's queue is known to be full: the INTERRUPT cannot be handed
				// over, so there is nothing to wait for - the caller is answered at once in
				// every mode, and nobody else notices
				calleeFull = true
				w.st.Label("cancel_with_full_callee_queue")
			} else {
				// whether the INTERRUPT still fits into the silent callee's queue decides
				// between waiting for it and answering at once
				exp.may(c.callee, "INTERRUPT (silent callee)", func(x wamp.Message) bool { _, ok := x.(*wamp.Interrupt); return ok })
				d.markGrey(w, c, "cancel_with_silent_callee")
				return nil
			}
		}
		c.events++
		c.hadTimeout = true
		w.st.Label("cancel_" + mode)
		canInterrupt := w.sess[c.callee].has("callee", "call_canceling") && !calleeFull
		inv := c.inv
		if mode != "skip" && canInterrupt {
			mm := mode
			exp.must(c.callee, fmt.Sprintf("INTERRUPT{req=%d mode=%s}", inv, mode), func(x wamp.Message) bool {
				i, ok := x.(*wamp.Interrupt)
				if !ok || i.Request != inv {
					return false
				}
				if got, ok := wamp.AsString(i.Options["mode"]); ok && got != mm {
					return false
				}
				return true
			})
		}
		if mode == "kill" && canInterrupt {
			c.killPending = true
			return nil
		}
		if mode != "skip" && !canInterrupt {
			w.st.Label("cancel_degraded_to_skip")
		}
		exp.must(sr.S, fmt.Sprintf("ERROR{CALL req=%d wamp.error.canceled}", req), func(x wamp.Message) bool { return isCallError(x, req, wamp.ErrCanceled) })
		d.finalDue[ck{sr.S, req}]++
		d.finish(c, true)
	case *wamp.Yield:
		progress, _ := m.Options["progress"].(bool)
		key := ck{sr.S, m.Request}
		c := d.invs[key]
		if c == nil {
			w.st.Label("yield_unknown_invocation")
			if progress {
				inv := m.Request
				match := func(x wamp.Message) bool {
					i, ok := x.(*wamp.Interrupt)
					return ok && i.Request == inv
				}
				if d.abandoned[key] {
					exp.must(sr.S, fmt.Sprintf("INTERRUPT{req=%d} for a progressive result of an abandoned call", inv), match)
					w.st.Label("progressive_yield_interrupted")
				} else {
					exp.may(sr.S, "INTERRUPT for unknown progressive yield", match)
				}
			}
			return nil
		}
		if _, ppt := m.Options["ppt_scheme"]; ppt {
			d.markGrey(w, c, "ppt_yield")
			return nil
		}
		if c.answered {
			// duplicate answer of the callee: nothing anywhere (an INTERRUPT back to a
			// progressive yield is tolerated)
			w.st.Label("yield_after_final_answer_of_streaming_call")
			if progress {
				inv := m.Request
				exp.may(sr.S, "INTERRUPT for a progressive yield after the final one", func(x wamp.Message) bool {
					i, ok := x.(*wamp.Interrupt)
					return ok && i.Request == inv
				})
			}
			return nil
		}
		req := c.req
		args, kw := m.Arguments, m.ArgumentsKw
		if w.stalled[c.caller] {
			// The caller does not read. When its queue is known to be full the router
			// cannot hand over a final RESULT now and retries; the caller must get it
			// once it reads again within the retry period (C02: a caller that keeps
			// reading gets its one final reply; C07: the bounded hold).
			exact := !progress && !c.killPending && !c.progressive && w.sess[c.caller].local && !w.unsure[c.caller] &&
				len(w.backlog[c.caller]) >= w.queueCap(c.caller) && len(exp[c.caller]) == 0
			if !exact {
				if progress && !c.killPending && w.sess[c.caller].local && !w.unsure[c.caller] &&
					len(w.backlog[c.caller]) >= w.queueCap(c.caller) && len(exp[c.caller]) == 0 {
					// a progressive result that certainly does not fit: the router retries it for
					// the result-retry period and then cancels the call (C07 judges that part)
					w.st.Label("progressive_result_held_for_full_caller_queue")
				}
				d.markGrey(w, c, "yield_to_stalled_caller")
				return nil
			}
			h := &heldResult{caller: c.caller, callee: c.callee, req: req, inv: c.inv, yieldT: st.T, resumeT: -1}
			h.match = func(x wamp.Message) bool {
				r, ok := x.(*wamp.Result)
				if !ok || r.Request != req {
					return false
				}
				if p, _ := r.Details["progress"].(bool); p {
					return false
				}
				return PayloadEq(r.Arguments, args) && PayloadEq(r.ArgumentsKw, kw)
			}
			c.events++
			d.finish(c, false)
			d.held[ck{h.caller, req}] = h
			w.st.Label("final_result_held_for_full_caller_queue")
			return nil
		}
		if progress {
			if c.killPending {
				d.markGrey(w, c, "progressive_yield_after_kill")
				return nil
			}
			c.events++
			w.st.Label("yield_progress")
			add := exp.must
			if !c.recvProgress {
				// the callee was never told that progress is wanted: whether the
				// router forwards or drops such a result is not stated
				add = exp.may
				w.st.Label("grey:unsolicited_progress")
			}
			add(c.caller, fmt.Sprintf("RESULT{req=%d progress}", req), func(x wamp.Message) bool {
				r, ok := x.(*wamp.Result)
				if !ok || r.Request != req {
					return false
				}
				if p, _ := r.Details["progress"].(bool); !p {
					return false
				}
				return PayloadEq(r.Arguments, args) && PayloadEq(r.ArgumentsKw, kw)
			})
			return nil
		}
		w.st.Label("yield_final")
		c.events++
		if c.killPending {
			w.st.Label("yield_final_after_kill")
		}
		exp.must(c.caller, fmt.Sprintf("RESULT{req=%d final}", req), func(x wamp.Message) bool {
			r, ok := x.(*wamp.Result)
			if !ok || r.Request != req {
				return false
			}
			if p, _ := r.Details["progress"].(bool); p {
				return false
			}
			return PayloadEq(r.Arguments, args) && PayloadEq(r.ArgumentsKw, kw)
		})
		d.finalDue[ck{c.caller, req}]++
		if c.progressive {
			// the caller is still streaming chunks: it has its final reply now; what
			// the router does with chunks still to come is not stated, but no second
			// final reply may follow
			c.answered = true
			c.deadline = 0
			w.st.Label("final_yield_while_caller_streams")
			return nil
		}
		d.finish(c, false)
	case *wamp.Error:
		if m.Type != wamp.INVOCATION {
			return nil
		}
		key := ck{sr.S, m.Request}
		c := d.invs[key]
		if c == nil {
			w.st.Label("error_unknown_invocation")
			return nil
		}
		if c.answered {
			// nothing reaches the caller; the callee has given up the invocation, so the
			// router has no reason to remember the call any longer
			w.st.Label("error_after_final_answer_of_streaming_call")
			d.finish(c, false)
			return nil
		}
		req := c.req
		uri, args, kw := m.Error, m.Arguments, m.ArgumentsKw
		w.st.Label("invocation_error")
		c.events++
		exp.must(c.caller, fmt.Sprintf("ERROR{CALL req=%d %s}", req, uri), func(x wamp.Message) bool {
			er, ok := x.(*wamp.Error)
			return ok && er.Type == wamp.CALL && er.Request == req && er.Error == uri && PayloadEq(er.Arguments, args) && PayloadEq(er.ArgumentsKw, kw)
		})
		d.finalDue[ck{c.caller, req}]++
		d.finish(c, false)
	}
	return nil
}

func (d *dealerPart) onRegisterMsg(w *World, st *StepRec, s int, realm string, rc *RealmCfg, m *wamp.Register, exp Exp) *Violation {
	ms := w.sess[s]
	req := m.Request
	match, _ := wamp.AsString(m.Options["match"])
	class := policyClass(match)
	invoke, _ := wamp.AsString(m.Options["invoke"])
	disclose, _ := m.Options["disclose_caller"].(bool)
	fwd, _ := m.Options["forward_timeout"].(bool)
	errIs := func(uri wamp.URI) func(wamp.Message) bool {
		return func(x wamp.Message) bool {
			er, ok := x.(*wamp.Error)
			return ok && er.Type == wamp.REGISTER && er.Request == req && (uri == "" || er.Error == uri)
		}
	}
	valid, grey := modelValidURI(string(m.Procedure), rc.Strict, match)
	if grey {
		exp.may(s, "any reply (grey URI)", func(wamp.Message) bool { return true })
		return nil
	}
	if !valid {
		w.st.Label("register_invalid_uri")
		exp.must(s, fmt.Sprintf("ERROR{REGISTER req=%d invalid_uri}", req), errIs(wamp.ErrInvalidURI))
		return nil
	}
	if strings.HasPrefix(string(m.Procedure), "wamp.") {
		w.st.Label("register_restricted")
		exp.must(s, fmt.Sprintf("ERROR{REGISTER req=%d} for a restricted wamp.* procedure", req), errIs(""))
		return nil
	}
	if disclose && !rc.AllowDisclose && !ms.trusted() {
		w.st.Label("register_disclose_refused")
		exp.must(s, fmt.Sprintf("ERROR{REGISTER req=%d option_disallowed.disclose_me}", req), errIs(wamp.ErrOptionDisallowedDiscloseMe))
		return nil
	}
	switch invoke {
	case "", "single", "first", "last", "roundrobin", "random":
	default:
		w.st.Label("register_unknown_policy")
		exp.must(s, fmt.Sprintf("ERROR{REGISTER req=%d} for an unknown invocation policy", req), errIs(""))
		return nil
	}
	key := subKey(realm, class, string(m.Procedure))
	existing := d.regs[key]
	var got *wamp.Registered
	for _, r := range st.Recv[s] {
		if rd, ok := r.(*wamp.Registered); ok && rd.Request == req {
			got = rd
		}
	}
	if existing != nil {
		shared := existing.policy != "" && existing.policy != "single" && existing.policy == invoke
		if !shared {
			w.st.Label("register_conflict")
			exp.must(s, fmt.Sprintf("ERROR{REGISTER req=%d procedure_already_exists}", req), errIs(wamp.ErrProcedureAlreadyExists))
			return nil
		}
		already := false
		for _, x := range existing.members {
			if x == s {
				already = true
			}
		}
		if already {
			// same session again under an accepted policy: reply unspecified, no second membership
			w.st.Label("register_same_session_again")
			exid := existing.id
			exp.must(s, "REGISTERED (same id) or ERROR procedure_already_exists", func(x wamp.Message) bool {
				if rd, ok := x.(*wamp.Registered); ok {
					return rd.Request == req && rd.Registration == exid
				}
				return errIs(wamp.ErrProcedureAlreadyExists)(x)
			})
			return nil
		}
		if got == nil {
			return w.fail(st, "session %d: REGISTER req=%d %q under identical sharing policy %q got no REGISTERED (received %s)", s, req, m.Procedure, invoke, recvString(st.Recv[s]))
		}
		if got.Registration != existing.id {
			return w.fail(st, "session %d: shared REGISTER of %q answered with id %d, the live registration has id %d", s, m.Procedure, got.Registration, existing.id)
		}
		existing.members = append(existing.members, s)
		existing.rrLast = -1
		w.st.Label("register_shared_join")
		if d.onRegister != nil {
			d.onRegister(st, s, existing)
		}
	} else {
		if got == nil {
			return w.fail(st, "session %d: REGISTER req=%d %q match=%q got no REGISTERED (received %s)", s, req, m.Procedure, match, recvString(st.Recv[s]))
		}
		if other := d.byID[idKey(realm, got.Registration)]; other != nil {
			return w.fail(st, "session %d: new registration of %q got id %d, the id of live registration %q", s, m.Procedure, got.Registration, other.uri)
		}
		r := &mReg{id: got.Registration, realm: realm, uri: string(m.Procedure), class: class, policy: invoke, disclose: disclose, forwardTimeout: fwd, members: []int{s}, rrLast: -1, created: st.N}
		d.regs[key] = r
		d.byID[idKey(realm, r.id)] = r
		w.st.Label("register_new")
		if d.onCreate != nil {
			d.onCreate(st, s, r)
		}
		if d.onRegister != nil {
			d.onRegister(st, s, r)
		}
	}
	exp.must(s, "REGISTERED", func(x wamp.Message) bool { return x == wamp.Message(got) })
	return nil
}

var identityKeys = []string{"caller", "caller_authid", "caller_authrole"}

func (d *dealerPart) onCallMsg(w *World, st *StepRec, s int, realm string, rc *RealmCfg, m *wamp.Call, exp Exp) *Violation {
	req := m.Request
	proc := string(m.Procedure)
	if routerProc(rc, proc) {
		if !d.handledProcs[proc] {
			d.metaReq[ck{s, req}] = true
		}
		return nil
	}
	if _, ok := m.Options["ppt_scheme"]; ok {
		d.greyReq[ck{s, req}] = true
		w.st.Label("grey:ppt_call")
		return nil
	}
	isProgressChunk, _ := m.Options["progress"].(bool)
	if d.greyReq[ck{s, req}] && d.calls[ck{s, req}] == nil {
		// a request id the model gave up on earlier (a chunk sent after the final
		// result, after a kill-mode cancel ...) is used again: outside every statement
		for _, r := range d.resolve(realm, proc) {
			r.rrLast = -1
			for _, x := range r.members {
				d.greyParty[x] = true
			}
		}
		w.st.Label("grey:call_on_abandoned_request_id")
		return nil
	}
	if existing := d.calls[ck{s, req}]; existing != nil {
		if !existing.progressive {
			// reuse of a live request id: outside every statement
			d.markGrey(w, existing, "request_id_reused")
			return nil
		}
		if existing.answered {
			// a chunk sent after the call was answered finally: outside the statement
			d.markGrey(w, existing, "chunk_after_final_result")
			return nil
		}
		if r := d.byID[idKey(realm, existing.reg.id)]; r == nil || !containsInt(r.members, existing.callee) {
			// The callee has unregistered the procedure while it serves this call. Whether
			// the chunk still reaches it is not stated; if the router refuses the chunk
			// with an ERROR, that is the call's one final reply.
			w.st.Label("chunk_after_unregister")
			for _, x := range st.Recv[s] {
				if isCallError(x, req, "") {
					exp.must(s, fmt.Sprintf("ERROR{CALL req=%d} refusing a chunk", req), func(x wamp.Message) bool { return isCallError(x, req, "") })
					inv := existing.inv
					exp.may(existing.callee, "INTERRUPT (call ended by the router)", func(x wamp.Message) bool {
						i, ok := x.(*wamp.Interrupt)
						return ok && i.Request == inv
					})
					d.finalDue[ck{s, req}]++
					d.finish(existing, true)
					return nil
				}
			}
		}
		// next chunk of a progressive call: same callee, same invocation id
		inv, callee := existing.inv, existing.callee
		args, kw := m.Arguments, m.ArgumentsKw
		existing.progressive = isProgressChunk
		regID := existing.reg.id
		w.st.Label("call_chunk")
		exp.must(callee, fmt.Sprintf("INVOCATION{req=%d} (next chunk)", inv), func(x wamp.Message) bool {
			i, ok := x.(*wamp.Invocation)
			if !ok || i.Request != inv || i.Registration != regID {
				return false
			}
			if p, _ := i.Details["progress"].(bool); p != isProgressChunk {
				return false
			}
			return PayloadEq(i.Arguments, args) && PayloadEq(i.ArgumentsKw, kw)
		})
		return nil
	}
	unroutable := func(why string) {
		w.st.Label("call_unroutable:" + why)
		exp.must(s, fmt.Sprintf("ERROR{CALL req=%d} (%s)", req, why), func(x wamp.Message) bool { return isCallError(x, req, "") })
		d.finalDue[ck{s, req}]++
	}
	if isProgressChunk && !w.sess[s].has("caller", "progressive_call_invocations") {
		// protocol violation by the caller: it alone is aborted (C04 territory)
		w.killed[s] = ""
		exp.may(s, "ABORT protocol_violation", func(x wamp.Message) bool { _, ok := x.(*wamp.Abort); return ok })
		w.st.Label("call_progress_without_feature")
		return nil
	}
	cands := d.resolve(realm, proc)
	if len(cands) == 0 {
		w.st.Label("call_no_such_procedure")
		exp.must(s, fmt.Sprintf("ERROR{CALL req=%d wamp.error.no_such_procedure}", req), func(x wamp.Message) bool {
			return isCallError(x, req, wamp.ErrNoSuchProcedure)
		})
		d.finalDue[ck{s, req}]++
		return nil
	}
	caller := w.sess[s]
	// C07: whether an INVOCATION still fits into the queue of a callee that does
	// not read, and what a yield towards a caller that does not read does, is
	// judged by the bounded-hold scenario, not by the exact model.
	// A callee that does not read and whose queue is known to be full cannot be
	// handed the INVOCATION: the call cannot be routed, its caller gets one ERROR
	// now (A.2) and nothing of the call remains.
	if !w.stalled[s] && len(cands) == 1 && !isProgressChunk {
		if al := allowedCallees(cands[0]); len(al) == 1 && len(cands[0].members) == 1 {
			x := al[0]
			dm, _ := m.Options["disclose_me"].(bool)
			if w.stalled[x] && w.sess[x].local && !w.unsure[x] && len(w.backlog[x]) >= w.queueCap(x) && len(exp[x]) == 0 && !dm {
				w.st.Label("call_to_callee_with_full_queue")
				exp.must(s, fmt.Sprintf("ERROR{CALL req=%d} because the callee's queue is full", req), func(x wamp.Message) bool { return isCallError(x, req, "") })
				d.finalDue[ck{s, req}]++
				return nil
			}
		}
	}
	for _, r := range cands {
		for _, idx := range r.members {
			if w.stalled[idx] || w.stalled[s] {
				d.greyReq[ck{s, req}] = true
				if w.stalled[s] {
					w.unsure[s] = true // the reply may take a slot in the silent caller's queue
				}
				for _, r2 := range cands {
					r2.rrLast = -1
				}
				if tmo, _ := wamp.AsInt64(m.Options["timeout"]); tmo > 0 {
					// the router's timer may later send an INTERRUPT into a silent callee's queue
					for x := range w.stalled {
						w.unsure[x] = true
					}
				}
				w.st.Label("grey:call_involving_stalled_session")
				for _, x := range r.members {
					d.greyParty[x] = true
					if w.stalled[x] {
						// it may take a slot in the silent callee's queue
						exp.may(x, "INVOCATION (silent callee)", func(m wamp.Message) bool { _, ok := m.(*wamp.Invocation); return ok })
					}
				}
				d.stalledCalls++
				return nil
			}
		}
	}
	// Which callees may be chosen?
	type cand struct {
		r   *mReg
		idx int
	}
	var allowed []cand
	for _, r := range cands {
		for _, idx := range allowedCallees(r) {
			allowed = append(allowed, cand{r, idx})
		}
	}
	discloseMe, _ := m.Options["disclose_me"].(bool)
	// Find the INVOCATION actually sent.
	var chosen *cand
	var got *wamp.Invocation
	for i := range allowed {
		a := &allowed[i]
		for _, x := range st.Recv[a.idx] {
			inv, ok := x.(*wamp.Invocation)
			if !ok || inv.Registration != a.r.id || d.usedInv[a.idx][inv.Request] {
				continue
			}
			if _, live := d.invs[ck{a.idx, inv.Request}]; live {
				continue
			}
			if chosen == nil {
				chosen, got = a, inv
			}
		}
	}
	// A refused disclose_me (realm forbids, registration does not disclose).
	refusable := discloseMe && !rc.AllowDisclose
	if refusable {
		// A registration that discloses callers itself needs no permission for this call.
		// With several matching wildcard registrations the router's choice decides: the
		// call is refusable only if it went (or, when nothing was routed, could have
		// gone) to a registration that does not disclose.
		allReg := true
		for _, a := range allowed {
			if !a.r.disclose {
				allReg = false
			}
		}
		if chosen != nil {
			allReg = chosen.r.disclose
		}
		if !allReg {
			isRefusal := func(x wamp.Message) bool { return isCallError(x, req, wamp.ErrOptionDisallowedDiscloseMe) }
			if !caller.trusted() || chosen == nil {
				// whether a refused call consumes a round-robin turn is not stated
				for _, a := range allowed {
					a.r.rrLast = -1
				}
				w.st.Label("call_disclose_refused")
				if isProgressChunk && chosen == nil {
					// a callee without progressive_call_invocations may be refused for that instead
					isRefusal = func(x wamp.Message) bool { return isCallError(x, req, "") }
				}
				exp.must(s, fmt.Sprintf("ERROR{CALL req=%d option_disallowed.disclose_me}", req), isRefusal)
				d.finalDue[ck{s, req}]++
				return nil
			}
			// trusted requester and the router routed it: unspecified, accepted
			w.st.Label("grey:trusted_disclose_me")
		}
	}
	if chosen == nil {
		// features missing at every candidate for a progressive call?
		if isProgressChunk {
			for _, a := range allowed {
				a.r.rrLast = -1
			}
			unroutable("callee lacks progressive_call_invocations")
			return nil
		}
		var names []string
		for _, a := range allowed {
			names = append(names, fmt.Sprintf("s%d(reg %d)", a.idx, a.r.id))
		}
		return w.fail(st, "session %d: CALL req=%d %q must be routed to one of [%s] (policy %q) but none of them received an INVOCATION; caller received %s",
			s, req, proc, strings.Join(names, ","), cands[0].policy, recvString(st.Recv[s]))
	}
	r, calleeIdx := chosen.r, chosen.idx
	callee := w.sess[calleeIdx]
	if isProgressChunk && !(callee.has("callee", "progressive_call_invocations") && callee.has("callee", "call_canceling")) {
		return w.fail(st, "session %d: progressive CALL req=%d routed to session %d which lacks progressive_call_invocations/call_canceling", s, req, calleeIdx)
	}
	if d.usedInv[calleeIdx] == nil {
		d.usedInv[calleeIdx] = map[wamp.ID]bool{}
	}
	d.usedInv[calleeIdx][got.Request] = true
	// policy bookkeeping follows the observed choice
	for i, x := range r.members {
		if x == calleeIdx {
			r.rrLast = i
		}
	}
	nMatching := 0
	for _, x := range d.regs {
		if x.realm == realm && modelMatches(proc, x.uri, x.class) {
			nMatching++
		}
	}
	if nMatching >= 2 || len(r.members) >= 2 {
		w.st.Label("call_multi_candidate")
	}
	if nMatching >= 2 {
		w.st.Label("call_overlapping_registrations")
	}
	w.st.Label("call_routed:" + r.class)
	if len(r.members) >= 2 {
		w.st.Label("call_shared:" + r.policy)
	}
	// details
	wantRecvProgress := false
	if rp, _ := m.Options["receive_progress"].(bool); rp {
		wantRecvProgress = callee.has("callee", "progressive_call_results") && callee.has("callee", "call_canceling")
	}
	gotRecvProgress, _ := got.Details["receive_progress"].(bool)
	if wantRecvProgress != gotRecvProgress {
		return w.fail(st, "INVOCATION to session %d for CALL req=%d of session %d: receive_progress=%v, expected %v (caller asked=%v, callee features %v)",
			calleeIdx, req, s, gotRecvProgress, wantRecvProgress, m.Options["receive_progress"], callee.cfg.Roles["callee"])
	}
	if r.class != "exact" {
		if p, _ := wamp.AsString(got.Details["procedure"]); p != proc {
			return w.fail(st, "INVOCATION for pattern registration %q lacks details.procedure=%q (got %v)", r.uri, proc, got.Details["procedure"])
		}
	}
	timeoutMs, _ := wamp.AsInt64(m.Options["timeout"])
	var deadline time.Duration
	if timeoutMs > 0 {
		if callee.has("callee", "call_timeout") && r.forwardTimeout {
			ft, _ := wamp.AsInt64(got.Details["timeout"])
			if ft != timeoutMs {
				return w.fail(st, "INVOCATION to a forward_timeout callee with call_timeout: details.timeout=%v, expected %d", got.Details["timeout"], timeoutMs)
			}
			w.st.Label("timeout_forwarded")
		} else {
			if _, has := got.Details["timeout"]; has {
				return w.fail(st, "INVOCATION carries details.timeout=%v although the callee does not handle timeouts (forward_timeout=%v call_timeout=%v)",
					got.Details["timeout"], r.forwardTimeout, callee.has("callee", "call_timeout"))
			}
			deadline = st.T + time.Duration(timeoutMs)*time.Millisecond
			w.st.Label("timeout_router_handled")
		}
	}
	discloseOK := r.disclose || (discloseMe && (rc.AllowDisclose || caller.trusted()) && callee.has("callee", "caller_identification"))
	if !discloseOK {
		for _, k := range identityKeys {
			if _, has := got.Details[k]; has {
				return w.fail(st, "INVOCATION to session %d discloses %s=%v although disclosure was neither requested by the registration nor allowed for this call", calleeIdx, k, got.Details[k])
			}
		}
	} else if cid, has := got.Details["caller"]; has {
		if id, _ := wamp.AsID(cid); id != caller.sid {
			return w.fail(st, "INVOCATION discloses caller=%v but the caller's session id is %d", cid, caller.sid)
		}
	}
	if !PayloadEq(got.Arguments, m.Arguments) || !PayloadEq(got.ArgumentsKw, m.ArgumentsKw) {
		return w.fail(st, "INVOCATION payload differs from the CALL's: got %s %s, sent %s %s", Show(Canon(got.Arguments)), Show(Canon(got.ArgumentsKw)), Show(Canon(m.Arguments)), Show(Canon(m.ArgumentsKw)))
	}
	c := &mCall{caller: s, req: req, callee: calleeIdx, inv: got.Request, reg: r, deadline: deadline, timeoutMs: timeoutMs, startedAt: st.T, progressive: isProgressChunk,
		recvProgress: gotRecvProgress, hadTimeout: timeoutMs > 0}
	if d.checkInvDetails != nil {
		if msg := d.checkInvDetails(c, m, got); msg != "" {
			return w.fail(st, "%s", msg)
		}
	}
	d.calls[ck{s, req}] = c
	d.invs[ck{calleeIdx, got.Request}] = c
	exp.must(calleeIdx, "INVOCATION", func(x wamp.Message) bool { return x == wamp.Message(got) })
	return nil
}

func (d *dealerPart) heldSorted() []*heldResult {
	var out []*heldResult
	for _, h := range d.held {
		out = append(out, h)
	}
	sort.Slice(out, func(i, j int) bool {
		if out[i].caller != out[j].caller {
			return out[i].caller < out[j].caller
		}
		return out[i].req < out[j].req
	})
	return out
}

// afterStepHeld: a held final RESULT must reach its caller at the first retry
// after the caller started reading again, exactly once.
func (d *dealerPart) afterStepHeld(w *World, st *StepRec, exp Exp) {
	for _, h := range d.heldSorted() {
		key := ck{h.caller, h.req}
		if w.stalled[h.caller] {
			if _, _, none := h.firstRetryAfter(st.T); none {
				// the retry period ended while the caller still did not read: the call is cancelled
				// (the callee is told by an INTERRUPT)
				delete(d.held, key)
				d.greyReq[key] = true
				d.greyInv[ck{h.callee, h.inv}] = true
				w.st.Label("held_result_expired")
			}
			continue
		}
		if h.resumeT < 0 {
			h.resumeT = st.T
			if st.Phase == "settle" {
				// the engine lets silent sessions read again only after the 24 hours
				h.resumeT = st.T + time.Hour
			}
		}
		at, _, none := h.firstRetryAfter(h.resumeT)
		if none {
			delete(d.held, key)
			d.greyReq[key] = true
			d.greyInv[ck{h.callee, h.inv}] = true
			w.st.Label("held_result_expired")
			continue
		}
		seen := false
		for _, x := range st.Recv[h.caller] {
			if h.match(x) {
				seen = true
			}
		}
		desc := fmt.Sprintf("RESULT{req=%d final} held back since t=%v for a full queue, due at the retry of t=%v after the caller read again at t=%v", h.req, h.yieldT, at, h.resumeT)
		switch {
		case seen:
			exp.must(h.caller, desc, h.match)
			d.finalDue[key]++
			delete(d.held, key)
			w.st.Label("held_result_delivered_after_resume")
		case st.T >= at:
			exp.must(h.caller, desc, h.match) // reported as missing
			delete(d.held, key)
		}
	}
}

func (d *dealerPart) AfterStep(w *World, st *StepRec, exp Exp) *Violation {
	d.afterStepHeld(w, st, exp)
	// router-handled timeouts that have expired by now
	var due []*mCall
	for _, c := range d.calls {
		if c.deadline > 0 && st.T >= c.deadline && !c.killPending {
			due = append(due, c)
		}
	}
	sort.Slice(due, func(i, j int) bool { return due[i].deadline < due[j].deadline })
	for _, c := range due {
		c := c
		c.events++
		req, inv := c.req, c.inv
		w.st.Label("timeout_fired")
		exp.must(c.caller, fmt.Sprintf("ERROR{CALL req=%d wamp.error.timeout} at t=%v", req, c.deadline), func(x wamp.Message) bool { return isCallError(x, req, wamp.ErrTimeout) })
		d.finalDue[ck{c.caller, req}]++
		if w.sess[c.callee].has("callee", "call_canceling") {
			exp.must(c.callee, fmt.Sprintf("INTERRUPT{req=%d} (timeout)", inv), func(x wamp.Message) bool {
				i, ok := x.(*wamp.Interrupt)
				return ok && i.Request == inv
			})
		}
		d.finish(c, true)
	}
	return nil
}
