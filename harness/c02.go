package harness

// C02, C03, C13 — RPC properties decided by the reference dealer model over
// rapid-generated sequential histories (three generator profiles, one model).

import (
	"fmt"

	"github.com/gammazero/nexus/v3/wamp"

	"pgregory.net/rapid"
)

func rpcOracle(prop string) func(c *Case) Oracle {
	return func(c *Case) Oracle {
		var d *dealerPart
		o := newComposite(c, prop, func(w *World) []Part {
			d = newDealerPart(w)
			// the broker model judges the pub/sub traffic of the slow-caller scenario
			return []Part{newBrokerPart(w), d}
		})
		o.stopModelAtPar = true
		o.onQuiesced = func(e *Engine) *Violation { return raceJudge(e, c, &o.st) }
		o.finishStats = func(st *CaseStats) {
			if st.Labels["race_tail_judged"] > 0 {
				st.NonTrivial = true
			}
			for _, c := range d.calls {
				if c.events > d.maxEvents {
					d.maxEvents = c.events
				}
				if c.hadTimeout && c.events > d.maxEventsTimeout {
					d.maxEventsTimeout = c.events
				}
			}
			race := st.Labels["race_tail_judged"] > 0
			switch prop {
			case "C02":
				st.NonTrivial = d.maxEvents >= 2 || race
			case "C03":
				st.NonTrivial = st.Labels["call_multi_candidate"] > 0
			case "C13":
				st.NonTrivial = d.maxEventsTimeout >= 2 || race
			}
		}
		return o
	}
}

func init() {
	common := []string{
		"sequential histories only (synctest.Wait() after every op); concurrent schedules are explored by the par profile of C02 and by C06-C08",
		"grey zones accepted either way: unsolicited progressive results, progressive yield after a kill-mode cancel, trusted caller's disclose_me on a realm that forbids disclosure, reply to a repeated REGISTER by the same session, reply to UNREGISTER of somebody else's registration",
		"payload-passthru options and progressive call invocations are exercised for robustness in C04, not judged here",
	}
	register(&Property{
		ID: "C02",
		Rule: "rapid-generated sequential RPC histories (2-5 sessions with random feature sets, <=35 ops: register/unregister/call with timeout+receive_progress/cancel in every mode by owner and strangers/" +
			"yield+error by owner, strangers, duplicate, late, unknown/advance of virtual time from the timer coincidence set/departures) against the reference dealer model, which demands exactly one final reply " +
			"whenever one is due and nothing else; the caller's inbox is judged after every step and 24 virtual hours after the last. Non-trivial = a routed call that then saw >=2 of {cancel, timeout expiry, callee departure, progressive result, final answer}; distinct = case hash",
		Gen:         func(t *rapid.T) *Case { return genRPC(t, "C02") },
		NewOracle:   rpcOracle("C02"),
		Assumptions: common,
	})
	register(&Property{
		ID: "C03",
		Rule: "as C02 but weighted to registration structure: overlapping exact/prefix/wildcard registrations over a 2-letter URI alphabet, shared registrations (first/last/roundrobin/random) joined and left mid-rotation, " +
			"conflicting policies, wamp.* registrations, unregister by owner/stranger; the model checks the callee chosen (allowed set per policy, exact rotation for roundrobin between membership changes), registration id, fresh invocation id, payload, receive_progress, procedure detail. " +
			"Non-trivial = a call resolved among >=2 candidate registrations or >=2 members; distinct = case hash",
		Gen:         func(t *rapid.T) *Case { return genRPC(t, "C03") },
		NewOracle:   rpcOracle("C03"),
		Assumptions: common,
	})
	register(&Property{
		ID: "C13",
		Rule: "as C02 narrowed to one caller and one or two callees with every feature combination and every order of {CANCEL(mode) by owner/stranger/repeated, YIELD final/progressive, ERROR, timer expiry at T-1ns/T/T+1ns, departure} around calls with timeouts from {1,50,1000} ms, forward_timeout on/off. " +
			"Non-trivial = a call with a timeout or cancel that saw >=2 competing events; distinct = case hash",
		Gen:         func(t *rapid.T) *Case { return genRPC(t, "C13") },
		NewOracle:   rpcOracle("C13"),
		Assumptions: append([]string{"virtual clock: 'never before T, exactly at T' is an equality on the synctest fake clock"}, common...),
	})
}

var invokePolicies = []string{"", "single", "first", "last", "roundrobin", "random"}
var sharedPolicies = []string{"first", "last", "roundrobin", "random"}

func genRegisterOp(t *rapid.T, s int, strict bool, profile string) Op {
	m := genMatch(t)
	if profile == "deterministic" && m == "wildcard" {
		// which of several matching wildcard registrations serves a call (or is named by
		// wamp.registration.match) is the router's free choice and may differ between the
		// two runs of a differential check
		m = "prefix"
	}
	op := Op{K: "register", S: s, Mode: m}
	switch {
	case pct(t, 6, "badreg"):
		op.URI = genInvalidURI(t, strict, m)
	case pct(t, 3, "wampreg"):
		op.URI = "wamp." + genTopic(t)
	default:
		op.URI = genPattern(t, m)
	}
	var pol string
	if profile == "hostile" {
		pol = pick(t, []string{"", "single", "first", "last", "roundrobin", "random", "foo", "foo", "ROUNDROBIN", "foo"}, "invoke")
	} else if profile == "C03" {
		pol = pick(t, []string{"", "single", "first", "last", "roundrobin", "roundrobin", "random", "roundrobin"}, "invoke")
	} else {
		pol = pick(t, invokePolicies, "invoke")
	}
	if pol == "random" && profile == "deterministic" {
		pol = "roundrobin" // differential runs need the same callee choice in both runs
	}
	if pol != "" {
		op.Opts = append(op.Opts, KV{"invoke", VStr(pol)})
	}
	if pct(t, 15, "discl") {
		op.Opts = append(op.Opts, KV{"disclose_caller", VBool(true)})
	}
	if pct(t, 30, "fwd") {
		op.Opts = append(op.Opts, KV{"forward_timeout", VBool(true)})
	}
	return op
}

var timeoutSet = []int64{1, 50, 1000}

func genCallOp(t *rapid.T, s int, profile string) Op {
	op := Op{K: "call", S: s, URI: genTopic(t), Args: genArgs(t, valOpts{}), Kw: genKw(t, valOpts{})}
	tp := 25
	if profile == "C13" {
		tp = 70
	}
	if pct(t, tp, "hasTimeout") {
		op.Opts = append(op.Opts, KV{"timeout", VI64(pick(t, timeoutSet, "timeout"))})
	} else if pct(t, 5, "zeroTimeout") {
		op.Opts = append(op.Opts, KV{"timeout", VI64(0)})
	}
	if pct(t, 40, "rp") {
		op.Opts = append(op.Opts, KV{"receive_progress", VBool(true)})
	}
	if pct(t, 12, "dm") {
		op.Opts = append(op.Opts, KV{"disclose_me", VBool(true)})
	}
	return op
}

// advances: the coincidence set around every timeout in play.
func genAdvance(t *rapid.T) Op {
	base := pick(t, []int64{0, 1, 1e6, 50e6, 1000e6, 2000e6}, "advbase")
	off := pick(t, []int64{0, -1, 1}, "advoff")
	ns := base + off
	if ns < 0 {
		ns = 0
	}
	return Op{K: "advance", Ns: ns}
}

func genRefTo(t *rapid.T, kind string, nsess int, foreignPct int) string {
	if pct(t, 6, "bogusref") {
		return "bogus:3"
	}
	who := -1
	if pct(t, foreignPct, "foreign") {
		who = uni(t, nsess, "who")
	}
	return fmt.Sprintf("%s:%d:%d", kind, who, uni(t, 6, "n"))
}

// rpcGen is a lightweight abstract state threaded through the generation of
// one history so that most calls are routable and most answers/cancels aim at a
// call that is probably live. It only steers the draw; it is never an oracle.
type gReg struct {
	uri, class, policy string
	members            []int
	n                  map[int]int // session -> index in its registration table
	rr                 int
}

type gCall struct {
	caller, callN int
	callee, invN  int
	live          bool
	streaming     bool   // a progressive call invocation whose caller may send further chunks
	uri           string
}

type rpcGen struct {
	nsess   int
	strict  bool
	profile string
	callers []int
	callees []int
	regs    []*gReg
	calls   []*gCall
	nCalls  map[int]int
	nInvs   map[int]int
	nRegs   map[int]int
	alive   []bool
}

func newRPCGen(nsess int, strict bool, profile string, callers, callees []int) *rpcGen {
	g := &rpcGen{nsess: nsess, strict: strict, profile: profile, callers: callers, callees: callees,
		nCalls: map[int]int{}, nInvs: map[int]int{}, nRegs: map[int]int{}, alive: make([]bool, nsess)}
	for i := range g.alive {
		g.alive[i] = true
	}
	return g
}

func (g *rpcGen) bestReg(uri string) *gReg {
	var best *gReg
	for _, r := range g.regs {
		if len(r.members) > 0 && r.class == "exact" && r.uri == uri {
			return r
		}
	}
	for _, r := range g.regs {
		if len(r.members) > 0 && r.class == "prefix" && modelPrefixMatch(uri, r.uri) && (best == nil || len(r.uri) > len(best.uri)) {
			best = r
		}
	}
	if best != nil {
		return best
	}
	for _, r := range g.regs {
		if len(r.members) > 0 && r.class == "wildcard" && modelWildcardMatch(uri, r.uri) {
			return r
		}
	}
	return nil
}

func (g *rpcGen) uriFor(t *rapid.T, r *gReg) string {
	switch r.class {
	case "prefix":
		u := r.uri
		if u == "" || pct(t, 60, "extend") {
			if u != "" && u[len(u)-1] != '.' {
				if pct(t, 50, "dot") {
					u += "."
				}
			}
			u += pick(t, uriAlphabet, "ext")
			if pct(t, 30, "ext2") {
				u += "." + pick(t, uriAlphabet, "ext2c")
			}
		}
		return u
	case "wildcard":
		out := ""
		comps := splitDots(r.uri)
		for i, c := range comps {
			if c == "" {
				c = pick(t, uriAlphabet, "fill")
			}
			if i > 0 {
				out += "."
			}
			out += c
		}
		return out
	}
	return r.uri
}

func splitDots(s string) []string {
	var out []string
	cur := ""
	for i := 0; i < len(s); i++ {
		if s[i] == '.' {
			out = append(out, cur)
			cur = ""
		} else {
			cur += string(s[i])
		}
	}
	return append(out, cur)
}

func (g *rpcGen) pickSess(t *rapid.T, pref []int, label string) int {
	if len(pref) > 0 && pct(t, 85, label+"pref") {
		return pick(t, pref, label)
	}
	return uni(t, g.nsess, label)
}

func (g *rpcGen) liveCalls() []*gCall {
	var out []*gCall
	for _, c := range g.calls {
		if c.live {
			out = append(out, c)
		}
	}
	return out
}

func (g *rpcGen) sessionGone(s int) {
	g.alive[s] = false
	for _, r := range g.regs {
		for i, m := range r.members {
			if m == s {
				r.members = append(r.members[:i:i], r.members[i+1:]...)
				break
			}
		}
	}
	for _, c := range g.calls {
		if c.caller == s || c.callee == s {
			c.live = false
		}
	}
}

func (g *rpcGen) op(t *rapid.T) Op {
	w := []int{18, 5, 27, 12, 16, 6, 10, 3, 3} // register unregister call cancel yield error advance goodbye drop
	switch g.profile {
	case "C03":
		w = []int{30, 8, 36, 4, 12, 4, 2, 2, 2}
	case "C13":
		w = []int{8, 2, 22, 24, 18, 6, 16, 2, 2}
	}
	if len(g.regs) == 0 {
		w[0] += 40
	}
	k := uni(t, 0+sum(w), "opk")
	idx := 0
	for i, x := range w {
		if k < x {
			idx = i
			break
		}
		k -= x
		idx = i
	}
	switch idx {
	case 0:
		s := g.pickSess(t, g.callees, "rs")
		// join an existing shared registration?
		joinPct := 15
		if g.profile == "C03" {
			joinPct = 45
		}
		if len(g.regs) > 0 && pct(t, joinPct, "joinshared") {
			r := pick(t, g.regs, "whichreg")
			op := Op{K: "register", S: s, URI: r.uri, Mode: r.class}
			if r.class == "exact" && pct(t, 50, "nomatchopt") {
				op.Mode = ""
			}
			pol := r.policy
			if pct(t, 15, "otherpol") {
				pol = pick(t, invokePolicies, "pol2")
				if pol == "random" && g.profile == "deterministic" {
					pol = "roundrobin"
				}
			}
			if pol != "" {
				op.Opts = append(op.Opts, KV{"invoke", VStr(pol)})
			}
			if r.policy != "" && r.policy != "single" && pol == r.policy && g.alive[s] && s < len(g.alive) {
				already := false
				for _, m := range r.members {
					if m == s {
						already = true
					}
				}
				if !already {
					r.members = append(r.members, s)
					r.n[s] = g.nRegs[s]
					g.nRegs[s]++
				}
			}
			return op
		}
		op := genRegisterOp(t, s, g.strict, g.profile)
		if v, _ := modelValidURI(op.URI, g.strict, op.Mode); v && g.alive[s] && len(op.URI) < 5 || (v && op.URI[:min(5, len(op.URI))] != "wamp.") {
			if g.bestRegExact(op.URI, policyClass(op.Mode)) == nil {
				pol := ""
				if pv, ok := optGet(op.Opts, "invoke"); ok {
					pol = pv.S
				}
				r := &gReg{uri: op.URI, class: policyClass(op.Mode), policy: pol, members: []int{s}, n: map[int]int{s: g.nRegs[s]}}
				g.nRegs[s]++
				g.regs = append(g.regs, r)
			}
		}
		return op
	case 1:
		s := g.pickSess(t, g.callees, "us")
		// prefer one of its own registrations
		var mine []*gReg
		for _, r := range g.regs {
			for _, m := range r.members {
				if m == s {
					mine = append(mine, r)
				}
			}
		}
		if len(mine) > 0 && pct(t, 75, "ownreg") {
			r := pick(t, mine, "whichmine")
			ref := fmt.Sprintf("reg:-1:%d", r.n[s])
			for i, m := range r.members {
				if m == s {
					r.members = append(r.members[:i:i], r.members[i+1:]...)
					break
				}
			}
			return Op{K: "unregister", S: s, Ref: ref}
		}
		return Op{K: "unregister", S: s, Ref: genRefTo(t, "reg", g.nsess, 40)}
	case 2:
		if g.profile != "hostile" {
			// next chunk of a progressive call invocation that is still open
			var streaming []*gCall
			for _, c := range g.calls {
				if c.live && c.streaming {
					streaming = append(streaming, c)
				}
			}
			if len(streaming) > 0 && pct(t, 45, "chunk") {
				c := pick(t, streaming, "whichstream")
				op := Op{K: "call", S: c.caller, URI: c.uri, Ref: fmt.Sprintf("call:-1:%d", c.callN), Args: genArgs(t, valOpts{}), Kw: genKw(t, valOpts{})}
				if pct(t, 60, "morechunks") {
					op.Opts = append(op.Opts, KV{"progress", VBool(true)})
				} else {
					c.streaming = false
				}
				return op
			}
		}
		s := g.pickSess(t, g.callers, "cs")
		op := genCallOp(t, s, g.profile)
		var live []*gReg
		for _, r := range g.regs {
			if len(r.members) > 0 {
				live = append(live, r)
			}
		}
		if len(live) > 0 && pct(t, 85, "routable") {
			op.URI = g.uriFor(t, pick(t, live, "target"))
		}
		if r := g.bestReg(op.URI); r != nil && g.alive[s] {
			callee := r.members[0]
			switch r.policy {
			case "last":
				callee = r.members[len(r.members)-1]
			case "roundrobin":
				callee = r.members[r.rr%len(r.members)]
				r.rr++
			}
			gc := &gCall{caller: s, callN: g.nCalls[s], callee: callee, invN: g.nInvs[callee], live: true, uri: op.URI}
			if g.profile != "hostile" && pct(t, 10, "streamcall") {
				// first chunk of a progressive call invocation
				op.Opts = append(op.Opts, KV{"progress", VBool(true)})
				gc.streaming = true
			}
			g.calls = append(g.calls, gc)
			g.nInvs[callee]++
		}
		g.nCalls[s]++
		return op
	case 3:
		mode := pick(t, []string{"", "skip", "kill", "killnowait", "kill", "skip", "killnowait", "bogusmode"}, "mode")
		if lc := g.liveCalls(); len(lc) > 0 && pct(t, 80, "livecancel") {
			c := pick(t, lc, "whichcall")
			s := c.caller
			if pct(t, 8, "strangercancel") {
				s = uni(t, g.nsess, "stranger")
			}
			if mode != "kill" && mode != "bogusmode" && s == c.caller {
				c.live = pct(t, 10, "keeplive") // sometimes cancel again later
			}
			ref := fmt.Sprintf("call:%d:%d", c.caller, c.callN)
			if pct(t, 55, "latestcall") {
				// the caller's latest call: the generator's own numbering drifts when requests
				// are refused, the latest one is the one most likely still pending
				ref = fmt.Sprintf("call:%d:-1", c.caller)
			}
			return Op{K: "cancel", S: s, Ref: ref, Mode: mode}
		}
		return Op{K: "cancel", S: g.pickSess(t, g.callers, "xs"), Ref: genRefTo(t, "call", g.nsess, 10), Mode: mode}
	case 4, 5:
		var op Op
		if idx == 4 {
			op = Op{K: "yield", Args: genArgs(t, valOpts{}), Kw: genKw(t, valOpts{})}
			if pct(t, 30, "prog") {
				op.Opts = append(op.Opts, KV{"progress", VBool(true)})
			}
		} else {
			op = Op{K: "error", Err: pick(t, []string{"app.error", "wamp.error.canceled", "a.b"}, "erruri"), Args: genArgs(t, valOpts{}), Kw: genKw(t, valOpts{})}
		}
		if lc := g.liveCalls(); len(lc) > 0 && pct(t, 80, "liveanswer") {
			c := pick(t, lc, "whichcall")
			op.S = c.callee
			if pct(t, 8, "strangeranswer") {
				op.S = uni(t, g.nsess, "stranger")
			}
			op.Ref = fmt.Sprintf("inv:%d:%d", c.callee, c.invN)
			if pct(t, 55, "latestinv") {
				op.Ref = fmt.Sprintf("inv:%d:-1", c.callee) // that callee's latest invocation
			}
			if _, prog := optGet(op.Opts, "progress"); !prog && op.S == c.callee {
				c.live = pct(t, 12, "answeragain") // duplicate / late answers
			}
			return op
		}
		op.S = g.pickSess(t, g.callees, "ys")
		op.Ref = genRefTo(t, "inv", g.nsess, 10)
		return op
	case 6:
		return genAdvance(t)
	case 7:
		s := uni(t, g.nsess, "gs")
		g.sessionGone(s)
		return Op{K: "goodbye", S: s}
	default:
		s := uni(t, g.nsess, "ds")
		g.sessionGone(s)
		return Op{K: "drop", S: s}
	}
}

func (g *rpcGen) bestRegExact(uri, class string) *gReg {
	for _, r := range g.regs {
		if r.uri == uri && r.class == class && len(r.members) > 0 {
			return r
		}
	}
	return nil
}

func sum(xs []int) int {
	n := 0
	for _, x := range xs {
		n += x
	}
	return n
}

func genRPCSessions(t *rapid.T, realm string, n int, allowRemote bool) []SessCfg {
	out := make([]SessCfg, n)
	remoteIdx := -1
	if allowRemote && pct(t, 30, "hasRemote") {
		remoteIdx = uni(t, n, "remoteIdx")
	}
	for i := range out {
		s := SessCfg{Realm: realm}
		if pct(t, 55, "fullroles") {
			s.Roles = fullRoles()
		} else {
			s.Roles = genRoles(t)
		}
		if i == remoteIdx {
			s.Transport = pick(t, remoteTransports, "transport")
		}
		if pct(t, 50, "hasAuthid") {
			s.Hello = append(s.Hello, KV{"authid", VStr(pick(t, []string{"u1", "u2"}, "authid"))})
		}
		out[i] = s
	}
	return out
}

func genRPC(t *rapid.T, profile string) *Case {
	strict := pct(t, 30, "strict")
	c := &Case{Realms: []RealmCfg{{URI: "r1", Strict: strict, Anonymous: true, AllowDisclose: rapid.Bool().Draw(t, "allowDisclose")}}}
	n := 2 + uni(t, 4, "nsess")
	if profile == "C13" {
		n = 2 + uni(t, 2, "nsess")
	}
	c.Sess = genRPCSessions(t, "r1", n, true)
	var callers, callees []int
	switch profile {
	case "C13":
		callers = []int{0}
		for i := 1; i < n; i++ {
			callees = append(callees, i)
		}
	default:
		for i := 0; i < n; i++ {
			if i%2 == 0 {
				callers = append(callers, i)
			} else {
				callees = append(callees, i)
			}
		}
	}
	g := newRPCGen(n, strict, profile, callers, callees)
	maxOps := 35
	ops := rapid.SliceOfN(rapid.Custom(func(t *rapid.T) Op { return g.op(t) }), minHistory(t, maxOps), maxOps).Draw(t, "ops")
	c.Ops = ops
	if profile == "C03" && pct(t, 12, "rotation") {
		appendRotation(t, c)
	}
	if (profile == "C02" || profile == "C13") && pct(t, 22, "racetail") {
		appendRaceTail(t, c)
		return c
	}
	if profile == "C02" && pct(t, 12, "slowcaller") {
		appendSlowCaller(t, c)
	} else if profile == "C02" && pct(t, 8, "blockedcallee") {
		appendBlockedCallee(t, c)
	}
	return c
}

// appendBlockedCallee adds three in-process sessions and a closing scenario: a
// callee that has stopped reading, with a full queue, is called. The call
// cannot be routed: its caller gets one ERROR and the router keeps nothing of
// it - whatever the callee does afterwards (reads again, leaves).
func appendBlockedCallee(t *rapid.T, c *Case) {
	n := len(c.Sess)
	caller, callee, other := n, n+1, n+2
	q := pick(t, []int{1, 2, 8}, "blockq")
	c.Sess = append(c.Sess,
		SessCfg{Realm: c.Sess[0].Realm, Roles: fullRoles()},
		SessCfg{Realm: c.Sess[0].Realm, Roles: fullRoles(), QSize: q},
		SessCfg{Realm: c.Sess[0].Realm, Roles: fullRoles()})
	call := Op{K: "call", S: caller, URI: "verif.blocked", Args: []V{VInt(7)}}
	if pct(t, 40, "blocktimeout") {
		call.Opts = []KV{{"timeout", VI64(pick(t, []int64{50, 1000}, "blockto"))}}
	}
	c.Ops = append(c.Ops,
		Op{K: "register", S: callee, URI: "verif.blocked"},
		Op{K: "subscribe", S: callee, URI: "verif.fill2"},
		Op{K: "stall", S: callee})
	for i := 0; i < q+uni(t, 3, "over2"); i++ {
		c.Ops = append(c.Ops, Op{K: "publish", S: other, URI: "verif.fill2", Args: []V{VInt(i)}})
	}
	c.Ops = append(c.Ops, call)
	if pct(t, 30, "blockagain") {
		c.Ops = append(c.Ops, Op{K: "call", S: caller, URI: "verif.blocked", Args: []V{VInt(8)}})
	}
	c.Ops = append(c.Ops, Op{K: "advance", Ns: pick(t, []int64{0, 49e6, 2e9}, "blockadv")})
	switch uni(t, 3, "blockend") {
	case 0:
		c.Ops = append(c.Ops, Op{K: "resume", S: callee},
			Op{K: "call", S: caller, URI: "verif.blocked", Args: []V{VInt(9)}},
			Op{K: "yield", S: callee, Ref: "inv:-1:-1", Args: []V{VStr("now")}})
	case 1:
		c.Ops = append(c.Ops, Op{K: "drop", S: callee})
	default:
		c.Ops = append(c.Ops, Op{K: "resume", S: callee}, Op{K: "goodbye", S: callee})
	}
	c.Ops = append(c.Ops, Op{K: "advance", Ns: 2e9},
		Op{K: "call", S: caller, URI: "verif.blocked", Args: []V{VInt(10)}})
}

// appendSlowCaller adds three in-process sessions and a closing scenario: a
// caller whose outbound queue is full at the moment its callee answers finally
// (it stopped reading for a while) and that reads again within the router's
// result-retry period. It keeps reading from then on, so it must get its one
// final reply.
func appendSlowCaller(t *rapid.T, c *Case) {
	n := len(c.Sess)
	caller, callee, other := n, n+1, n+2
	q := pick(t, []int{1, 2, 8}, "slowq")
	c.Sess = append(c.Sess,
		SessCfg{Realm: c.Sess[0].Realm, Roles: fullRoles(), QSize: q},
		SessCfg{Realm: c.Sess[0].Realm, Roles: fullRoles()},
		SessCfg{Realm: c.Sess[0].Realm, Roles: fullRoles()})
	call := Op{K: "call", S: caller, URI: "verif.slow", Args: []V{VInt(7)}}
	if pct(t, 30, "slowtimeout") {
		call.Opts = []KV{{"timeout", VI64(pick(t, []int64{50, 1000, 120000}, "slowto"))}}
	}
	c.Ops = append(c.Ops,
		Op{K: "register", S: callee, URI: "verif.slow"},
		Op{K: "subscribe", S: caller, URI: "verif.fill"},
		call,
		Op{K: "stall", S: caller})
	for i := 0; i < q+uni(t, 3, "over"); i++ {
		c.Ops = append(c.Ops, Op{K: "publish", S: other, URI: "verif.fill", Args: []V{VInt(i)}})
	}
	c.Ops = append(c.Ops,
		Op{K: "yield", S: callee, Ref: "inv:-1:-1", Args: []V{VStr("late")}, Kw: []KV{{"k", VInt(1)}}},
		Op{K: "advance", Ns: pick(t, []int64{0, 1e6, 2e6, 500e6, 40e9, 61e9}, "slowd")},
		Op{K: "resume", S: caller},
		Op{K: "advance", Ns: pick(t, []int64{1e6, 1e9, 70e9}, "slowa")},
		Op{K: "advance", Ns: 70e9},
		Op{K: "publish", S: other, URI: "verif.fill", Args: []V{VStr("after")}})
}


// appendRotation adds k callees sharing one round-robin (or other shared
// policy) registration and a caller: a number of calls around a whole multiple
// of k, then one member leaves - at the wrap-around point among others - and
// the rotation goes on.
func appendRotation(t *rapid.T, c *Case) {
	n := len(c.Sess)
	k := 3 + uni(t, 2, "rotk")
	for i := 0; i <= k; i++ {
		c.Sess = append(c.Sess, SessCfg{Realm: c.Sess[0].Realm, Roles: fullRoles()})
	}
	caller := n + k
	pol := pick(t, []string{"roundrobin", "roundrobin", "roundrobin", "first", "last", "random"}, "rotpol")
	for i := 0; i < k; i++ {
		c.Ops = append(c.Ops, Op{K: "register", S: n + i, URI: "verif.rr", Opts: []KV{{"invoke", VStr(pol)}}})
	}
	m := pick(t, []int{k - 1, k, k, k + 1, 2 * k, 2*k - 1}, "rotcalls")
	for i := 0; i < m; i++ {
		c.Ops = append(c.Ops, Op{K: "call", S: caller, URI: "verif.rr", Args: []V{VInt(i)}})
		if pct(t, 40, "rotyield") {
			c.Ops = append(c.Ops, Op{K: "yield", S: n + i%k, Ref: "inv:-1:-1", Args: []V{VInt(i)}})
		}
	}
	leaver := n + pick(t, []int{0, k / 2, k - 1}, "rotleaver")
	switch uni(t, 3, "rotleave") {
	case 0:
		c.Ops = append(c.Ops, Op{K: "unregister", S: leaver, Ref: "reg:-1:-1"})
	case 1:
		c.Ops = append(c.Ops, Op{K: "goodbye", S: leaver})
	default:
		c.Ops = append(c.Ops, Op{K: "drop", S: leaver})
	}
	for i := 0; i < 1+uni(t, k+1, "rotafter"); i++ {
		c.Ops = append(c.Ops, Op{K: "call", S: caller, URI: "verif.rr", Args: []V{VInt(100 + i)}})
	}
}


// appendRaceTail adds a caller, a callee and a closing batch of operations that
// are issued concurrently around one pending call - cancels in every mode, final
// and progressive yields, an invocation error, the callee's departure - each at
// a delay drawn from the coincidence set of the call's timeout, so that they
// race with each other and with the router's timer for real. The order in which
// the router processes them is not determined: the batch is judged by what must
// hold under every interleaving (raceJudge).
func appendRaceTail(t *rapid.T, c *Case) {
	n := len(c.Sess)
	caller, callee := n, n+1
	calleeRoles := fullRoles()
	canInterrupt := true
	if pct(t, 25, "nocancel") {
		canInterrupt = false
		var fs []string
		for _, f := range calleeRoles["callee"] {
			if f != "call_canceling" && f != "progressive_call_results" {
				fs = append(fs, f)
			}
		}
		calleeRoles["callee"] = fs
	}
	c.Sess = append(c.Sess, SessCfg{Realm: c.Sess[0].Realm, Roles: fullRoles()}, SessCfg{Realm: c.Sess[0].Realm, Roles: calleeRoles})
	call := Op{K: "call", S: caller, URI: "verif.race", Args: []V{VInt(1)}}
	var T int64
	if pct(t, 70, "racetimeout") {
		T = pick(t, []int64{1, 50}, "raceT")
		call.Opts = append(call.Opts, KV{"timeout", VI64(T)})
	}
	if pct(t, 50, "racerp") {
		call.Opts = append(call.Opts, KV{"receive_progress", VBool(true)})
	}
	c.Ops = append(c.Ops, Op{K: "register", S: callee, URI: "verif.race"}, call)
	delay := func() int64 {
		if T > 0 {
			return pick(t, []int64{0, T*1e6 - 1, T * 1e6, T * 1e6, T * 1e6, T*1e6 + 1}, "racedelay")
		}
		return pick(t, []int64{0, 0, 1, 1e6}, "racedelay0")
	}
	finalDue := T > 0
	killCancel := false
	k := 2 + uni(t, 3, "racen")
	for i := 0; i < k; i++ {
		var op Op
		switch uni(t, 7, "racek") {
		case 0, 1:
			mode := pick(t, []string{"", "skip", "kill", "killnowait", "kill"}, "racemode")
			op = Op{K: "cancel", S: caller, Ref: "call:-1:-1", Mode: mode}
			if mode == "kill" && canInterrupt {
				killCancel = true
			} else {
				finalDue = true
			}
		case 2, 3:
			op = Op{K: "yield", S: callee, Ref: "inv:-1:-1", Args: []V{VStr("done")}}
			finalDue = true
		case 4:
			op = Op{K: "yield", S: callee, Ref: "inv:-1:-1", Args: []V{VStr("progress")}, Opts: []KV{{"progress", VBool(true)}}}
		case 5:
			op = Op{K: "error", S: callee, Ref: "inv:-1:-1", Err: "app.error"}
			finalDue = true
		default:
			op = Op{K: pick(t, []string{"goodbye", "drop"}, "raceleave"), S: callee}
			finalDue = true
		}
		op.Par = true
		op.Ns = delay()
		c.Ops = append(c.Ops, op)
	}
	if killCancel && T > 0 {
		// a kill-mode cancel that wins the race stops the router's timer: the timeout alone
		// no longer guarantees a final reply
		due := false
		for _, op := range c.Ops[len(c.Ops)-k:] {
			if (op.K == "yield" && len(op.Opts) == 0) || op.K == "error" || op.K == "goodbye" || op.K == "drop" || (op.K == "cancel" && (op.Mode != "kill" || !canInterrupt)) {
				due = true
			}
		}
		finalDue = due
	}
	if c.P == nil {
		c.P = map[string]V{}
	}
	c.P["race_caller"], c.P["race_callee"], c.P["race_final_due"] = VInt(caller), VInt(callee), VBool(finalDue)
}

// raceJudge: what must hold for the call of the race tail under every
// interleaving of the concurrent batch (C02 clauses a-d, C13's "never after
// the call already completed").
func raceJudge(e *Engine, c *Case, st *CaseStats) *Violation {
	cv, ok := c.P["race_caller"]
	if !ok {
		return nil
	}
	caller, callee := cv.Go().(int), c.P["race_callee"].Go().(int)
	due, _ := c.P["race_final_due"].Go().(bool)
	if caller >= len(e.Sess) || callee >= len(e.Sess) || len(e.Sess[caller].Calls) == 0 {
		return nil
	}
	x, y := e.Sess[caller], e.Sess[callee]
	req := x.Calls[len(x.Calls)-1].ID
	issued := map[wamp.ID]bool{}
	for _, r := range x.Calls {
		issued[r.ID] = true
	}
	finals, afterFinal := 0, ""
	for _, m := range x.All {
		switch r := m.(type) {
		case *wamp.Result:
			if !issued[r.Request] {
				return &Violation{Prop: c.Prop, Reason: fmt.Sprintf("concurrent batch: the caller received %s for a request id it never issued", MsgString(m))}
			}
			if r.Request != req {
				continue
			}
			if finals > 0 {
				afterFinal = MsgString(m)
			}
			if p, _ := r.Details["progress"].(bool); !p {
				finals++
			}
		case *wamp.Error:
			if r.Type != wamp.CALL {
				continue
			}
			if !issued[r.Request] {
				return &Violation{Prop: c.Prop, Reason: fmt.Sprintf("concurrent batch: the caller received %s for a request id it never issued", MsgString(m))}
			}
			if r.Request != req {
				continue
			}
			if finals > 0 {
				afterFinal = MsgString(m)
			}
			finals++
		}
	}
	inbox := recvString(x.All)
	if finals > 1 {
		return &Violation{Prop: c.Prop, Reason: fmt.Sprintf("concurrent batch around call req=%d: the caller received %d final replies: %s", req, finals, inbox)}
	}
	if afterFinal != "" {
		return &Violation{Prop: c.Prop, Reason: fmt.Sprintf("concurrent batch around call req=%d: %s arrived after the final reply: %s", req, afterFinal, inbox)}
	}
	if due && finals == 0 && !x.Dropped {
		return &Violation{Prop: c.Prop, Reason: fmt.Sprintf("concurrent batch around call req=%d: a final reply was due under every interleaving (timeout, final answer, cancel or departure of the callee) but after 24 virtual hours the caller has none: %s", req, inbox)}
	}
	// the callee: at most one INTERRUPT for the cancellation or timeout of the invocation
	// (none if it cannot be interrupted), plus one for each progressive result it sent for
	// a call that was already gone (the router's way of stopping such a stream)
	progYields := 0
	for _, op := range c.Ops {
		if op.Par && op.K == "yield" && op.S == callee {
			if _, prog := optGet(op.Opts, "progress"); prog {
				progYields++
			}
		}
	}
	nint := map[wamp.ID]int{}
	for _, m := range y.All {
		if i, ok := m.(*wamp.Interrupt); ok {
			nint[i.Request]++
			if progYields == 0 && !hasFeature(&y.Cfg, "callee", "call_canceling") {
				return &Violation{Prop: c.Prop, Reason: "concurrent batch: INTERRUPT sent to a callee that did not announce call_canceling: " + MsgString(m)}
			}
			if nint[i.Request] > 1+progYields {
				return &Violation{Prop: c.Prop, Reason: fmt.Sprintf("concurrent batch: the callee received %d INTERRUPTs for invocation %d (one cancellation and %d progressive results sent)", nint[i.Request], i.Request, progYields)}
			}
		}
	}
	st.Label("race_tail_judged")
	if finals == 1 {
		st.Label("race_tail_one_final_reply")
	}
	return nil
}
