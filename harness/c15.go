package harness

// C15 — transports frame messages faithfully and are interchangeable.
// Three generators with their own executors (all inside the bubble):
//   rs   rawsocket framing: a harness-written client codec against the real
//        transport.AcceptRawSocket peer over net.Pipe (no router in between)
//   ws   websocket peer over an in-memory transport.WebsocketConnection
//   tp   transparency: one router scenario replayed with every session on each
//        transport/serializer; canonical observations must be identical

import (
	"bytes"
	"fmt"
	"io"
	"net"
	"sort"
	"strings"
	"sync"
	"testing"
	"testing/synctest"
	"time"

	"github.com/gammazero/nexus/v3/transport"
	"github.com/gammazero/nexus/v3/wamp"
	"github.com/ugorji/go/codec"
	"pgregory.net/rapid"
)

func init() {
	register(&Property{
		ID: "C15",
		Rule: "(rs) rapid-generated rawsocket sessions against the real server-side peer: handshake bytes (valid with every length nibble and serializer; reserved bits, bad magic, unsupported serializer), then a script of router->client messages with serialised sizes at limit-1/limit/limit+1 of the limit the client announced, " +
			"unserialisable messages, client->router frames at the server's limit-1/limit/limit+1, undecodable payloads, reserved frame types, truncated frames, PING with payloads, and par batches of PINGs concurrent with router->client traffic; oracle: delivered = sent minus whole drops, in order, intact; over-limit/reserved frames end only that connection; every PING gets one PONG with the same payload and the byte stream stays parseable. " +
			"(ws) the same message-level script through the websocket peer. (tp) a generated pub/sub+RPC+meta+history scenario replayed with all sessions on each of the 7 transports: per-session canonical observations (ids by first appearance, numbers by value) must be equal. " +
			"Non-trivial = an rs/ws stream with a boundary-size or dropped message followed by a delivered one, or a tp scenario with >=3 transports and >=1 delivered event or result; distinct = case hash",
		Gen:             genC15,
		Exec:            execC15,
		LivenessClaimed: true,
		ParRuns:         3,
		Assumptions: []string{
			"websocket framing itself (gorilla/websocket) is trusted; the websocket peer is driven through an in-memory transport.WebsocketConnection",
			"transparency is judged up to numeric representation and id renaming; WELCOME details are excluded (authmethod legitimately differs between in-process and remote peers)",
		},
	})
}

// ---- generators ----------------------------------------------------------------

func genC15(t *rapid.T) *Case {
	c := &Case{P: map[string]V{}}
	switch k := uni(t, 100, "mode"); {
	case k < 50:
		c.P["mode"] = VStr("rs")
		c.P["ser"] = VStr(pick(t, serNames, "ser"))
		valid := pct(t, 80, "validhs")
		if valid {
			c.P["hs"] = VBin([]byte{0x7f, byte(uni(t, 16, "nib"))<<4 | map[string]byte{"json": 1, "msgpack": 2, "cbor": 3}[c.P["ser"].S], 0, 0})
		} else {
			c.P["hs"] = VBin([]byte{pick(t, []byte{0x7f, 0x7f, 0x7f, 0x00, 0xff}, "magic"), rapid.Byte().Draw(t, "b1"), pick(t, []byte{0, 0, 1, 0x80}, "r2"), pick(t, []byte{0, 0, 1}, "r3")})
		}
		c.P["srvlimit"] = VInt(pick(t, []int{0, 512, 600, 1024, 4096}, "srvlimit"))
		c.P["qsize"] = VInt(pick(t, []int{64, 64, 8}, "qsize"))
		c.Ops = genFrameScript(t, true)
	case k < 70:
		c.P["mode"] = VStr("ws")
		c.P["ser"] = VStr(pick(t, serNames, "ser"))
		c.P["qsize"] = VInt(64)
		c.Ops = genFrameScript(t, false)
	default:
		c.P["mode"] = VStr("tp")
		base := genTransparencyScenario(t)
		c.Realms, c.Sess, c.Ops = base.Realms, base.Sess, base.Ops
		n := 3 + uni(t, 5, "ntransports")
		perm := rapid.Permutation(allTransports).Draw(t, "perm")
		c.P["transports"] = VStrs(perm[:n]...)
		if pct(t, 40, "keepalive") {
			c.P["keepalive"] = VI64(pick(t, []int64{600e9, 1800e9, 3600e9}, "ka"))
		}
	}
	return c
}

// script ops: K in s2c c2s ping c2sbad c2sreserved c2strunc s2cunser ; N = size selector ; Par
func genFrameScript(t *rapid.T, rs bool) []Op {
	sizes := []int{0, 1, 2, 3, 4, 5} // small, limit-1, limit, limit+1, 3*limit/2, tiny
	ops := rapid.SliceOfN(rapid.Custom(func(t *rapid.T) Op {
		k := uni(t, 100, "fk")
		switch {
		case k < 38:
			return Op{K: "s2c", N: pick(t, sizes, "sz")}
		case k < 60:
			return Op{K: "c2s", N: pick(t, sizes, "sz")}
		case k < 72 && rs:
			return Op{K: "ping", N: pick(t, []int{0, 1, 10, 100, 400}, "plen")}
		case k < 80:
			return Op{K: "s2cunser"}
		case k < 88:
			return Op{K: "c2sbad", N: uni(t, 40, "blen")}
		case k < 92 && rs:
			return Op{K: "c2sreserved", N: 3 + uni(t, 5, "rt")}
		case k < 95 && rs:
			return Op{K: "c2strunc"}
		default:
			return Op{K: "s2c", N: 0}
		}
	}), 1, 14).Draw(t, "script")
	if rs && pct(t, 35, "par") {
		// a concurrent batch: router->client traffic while the client pings
		n := 2 + uni(t, 5, "npar")
		for i := 0; i < n; i++ {
			if i%2 == 0 {
				ops = append(ops, Op{K: "s2c", N: pick(t, []int{0, 0, 5, 1}, "psz"), Par: true})
			} else {
				ops = append(ops, Op{K: "ping", N: pick(t, []int{1, 10, 100}, "pplen"), Par: true})
			}
		}
		ops = append(ops, Op{K: "s2c", N: 0}, Op{K: "ping", N: 3})
	}
	return ops
}

func genTransparencyScenario(t *rapid.T) *Case {
	c := &Case{Realms: []RealmCfg{{URI: "r1", Anonymous: true, RequireLocalAuth: true, Auths: []string{"static"}, Users: c01Users, AllowDisclose: rapid.Bool().Draw(t, "ad"),
		MetaKill: true, History: []HistCfg{{Topic: "a.b", Limit: 3}}}}}
	n := 2 + uni(t, 3, "nsess")
	for i := 0; i < n; i++ {
		c.Sess = append(c.Sess, SessCfg{Realm: "r1", Roles: fullRoles(), AuthMeth: []string{"static"}, Hello: []KV{{"authid", VStr(pick(t, []string{"u1", "u2", "u3"}, "authid"))}}})
	}
	var callers, callees []int
	for i := 0; i < n; i++ {
		if i%2 == 0 {
			callers = append(callers, i)
		} else {
			callees = append(callees, i)
		}
	}
	g := &mixGen{rpc: newRPCGen(n, false, "deterministic", callers, callees), nsess: n, profile: "C18", alive: make([]bool, n), ps: &psGen{nsess: n}}
	c.Ops = append(c.Ops, Op{K: "subscribe", S: 0, URI: "a.b"})
	ops := rapid.SliceOfN(rapid.Custom(func(t *rapid.T) Op {
		if pct(t, 12, "hist") {
			op := Op{K: "meta", S: uni(t, n, "hs"), URI: "wamp.subscription.get_events", Args: []V{VRef("sub:0:0")}}
			if pct(t, 50, "lim") {
				op.Kw = []KV{{"limit", VI64(int64(1 + uni(t, 3, "l")))}}
			}
			return op
		}
		if pct(t, 10, "histpub") {
			return Op{K: "publish", S: uni(t, n, "ps"), URI: "a.b", Opts: []KV{{"acknowledge", VBool(true)}}, Args: genArgs(t, valOpts{})}
		}
		return g.op(t)
	}), minHistory(t, 25), 25).Draw(t, "ops")
	c.Ops = noOrderDependentTestaments(append(c.Ops, ops...))
	return c
}

// noOrderDependentTestaments: when one request ends several sessions at once
// (kill_by_authid, kill_by_authrole, kill_all) the router takes the victims in map
// iteration order, so the order in which their testaments are published - and
// retained by an event history - differs from run to run. Differential checks
// keep either the testaments or the multi-session kills of a history.
func noOrderDependentTestaments(ops []Op) []Op {
	multi := false
	for _, op := range ops {
		if op.K == "meta" && (op.URI == "wamp.session.kill_by_authid" || op.URI == "wamp.session.kill_by_authrole" || op.URI == "wamp.session.kill_all") {
			multi = true
		}
	}
	if !multi {
		return ops
	}
	out := make([]Op, 0, len(ops))
	for _, op := range ops {
		if op.K == "meta" && op.URI == "wamp.session.add_testament" {
			genExcluded("differential:testament_with_multi_session_kill")
			op = Op{K: "meta", S: op.S, URI: "wamp.session.count"}
		}
		out = append(out, op)
	}
	return out
}

// ---- rs / ws executor -------------------------------------------------------------

type frameRec struct {
	typ     byte
	payload []byte
}

type rsClient struct {
	conn   net.Conn
	mu     sync.Mutex
	frames []frameRec
	mid    bool // reader is inside a frame
	eof    bool
}

func (c *rsClient) readLoop() {
	for {
		var h [4]byte
		if _, err := io.ReadFull(c.conn, h[:1]); err != nil {
			c.mu.Lock()
			c.eof = true
			c.mu.Unlock()
			return
		}
		c.mu.Lock()
		c.mid = true
		c.mu.Unlock()
		if _, err := io.ReadFull(c.conn, h[1:]); err != nil {
			c.mu.Lock()
			c.eof = true
			c.mu.Unlock()
			return
		}
		n := int(h[1])<<16 | int(h[2])<<8 | int(h[3])
		buf := make([]byte, n)
		if _, err := io.ReadFull(c.conn, buf); err != nil {
			c.mu.Lock()
			c.eof = true
			c.mu.Unlock()
			return
		}
		c.mu.Lock()
		c.frames = append(c.frames, frameRec{h[0], buf})
		c.mid = false
		c.mu.Unlock()
	}
}

func (c *rsClient) take() ([]frameRec, bool, bool) {
	c.mu.Lock()
	defer c.mu.Unlock()
	out := c.frames
	c.frames = nil
	return out, c.mid, c.eof
}

func (c *rsClient) write(b []byte) bool {
	done := make(chan error, 1)
	go func() { _, err := c.conn.Write(b); done <- err }()
	t := time.NewTimer(time.Minute)
	defer t.Stop()
	select {
	case err := <-done:
		return err == nil
	case <-t.C:
		_ = c.conn.SetWriteDeadline(time.Unix(1, 0))
		<-done
		return false
	}
}

// unserializable makes every codec fail: its Selfer implementation panics,
// which the codec turns into an encode error.
type unserializable struct{ C chan int }

func (unserializable) CodecEncodeSelf(*codec.Encoder) { panic("verif: unserialisable value") }
func (*unserializable) CodecDecodeSelf(*codec.Decoder) {}

// sizedMsg builds a PUBLISH whose serialised length is as close as possible to target.
func sizedMsg(ser string, seq int, target int) (wamp.Message, int) {
	s := serializerFor(ser)
	mk := func(pad int) (wamp.Message, int) {
		m := &wamp.Publish{Request: wamp.ID(seq), Options: wamp.Dict{}, Topic: "t", Arguments: wamp.List{strings.Repeat("x", pad)}}
		b, _ := s.Serialize(m)
		return m, len(b)
	}
	m, n := mk(0)
	if target <= n {
		return m, n
	}
	pad := target - n
	for i := 0; i < 6; i++ {
		m, n = mk(pad)
		if n == target {
			break
		}
		pad += target - n
		if pad < 0 {
			pad = 0
		}
	}
	return m, n
}

func sizeFor(sel int, limit int) int {
	if limit > 1<<16 {
		// multi-megabyte frames add nothing but time; boundaries are probed at the smaller limits
		if sel == 5 {
			return 1
		}
		return 40
	}
	switch sel {
	case 1:
		return limit - 1
	case 2:
		return limit
	case 3:
		return limit + 1
	case 4:
		return limit + limit/2
	case 5:
		return 1
	}
	return 40
}

func execFrames(c *Case, trace bool) Verdict {
	v := Verdict{Kind: "ok", Prop: "C15"}
	fail := func(format string, a ...any) Verdict {
		return Verdict{Kind: "violation", Prop: "C15", Reason: fmt.Sprintf(format, a...), Trace: v.Trace}
	}
	tr := func(format string, a ...any) {
		if trace {
			v.Trace = append(v.Trace, fmt.Sprintf(format, a...))
		}
	}
	ser := c.P["ser"].S
	s := serializerFor(ser)
	log := newRingLog(100)
	rs := c.P["mode"].S == "rs"
	qsize := c.P["qsize"].Go().(int)

	var peer wamp.Peer
	var cli *rsClient
	var cws *memWS
	var wsIn *inbuf
	clientLimit, serverLimit := 1<<24, 1<<24
	if rs {
		hs, _ := c.P["hs"].Go().([]byte)
		srvLimit := c.P["srvlimit"].Go().(int)
		cc, sc := net.Pipe()
		type acc struct {
			p   wamp.Peer
			err error
		}
		accCh := make(chan acc, 1)
		go func() {
			p, err := transport.AcceptRawSocket(sc, log, srvLimit, qsize)
			accCh <- acc{p, err}
		}()
		cli = &rsClient{conn: cc}
		if !cli.write(hs) {
			return fail("the server did not read the 4 handshake bytes")
		}
		valid := len(hs) == 4 && hs[0] == 0x7f && hs[2] == 0 && hs[3] == 0 && hs[1]&0xf >= 1 && hs[1]&0xf <= 3
		if valid {
			// the handshake bytes decide the serializer (randomly drawn bytes can be a valid handshake)
			ser = []string{"", "json", "msgpack", "cbor"}[hs[1]&0xf]
			s = serializerFor(ser)
		}
		synctest.Wait()
		var reply [4]byte
		replyCh := make(chan error, 1)
		go func() { _, err := io.ReadFull(cc, reply[:]); replyCh <- err }()
		synctest.Wait()
		var rerr error
		select {
		case rerr = <-replyCh:
		default:
			rerr = fmt.Errorf("no reply")
		}
		a := <-accCh
		if !valid {
			// must fail cleanly: error from Accept, connection closed, at most an error reply byte
			if a.err == nil {
				return fail("handshake % x was accepted although it is invalid", hs)
			}
			if rerr == nil {
				if reply[0] != 0x7f || reply[1]&0xf != 0 {
					return fail("invalid handshake % x answered with % x, which is not an error reply", hs, reply)
				}
				v.Stats.Label("handshake_error_reply")
			}
			v.Stats.Label("handshake_rejected")
			_ = cc.Close()
			v.Stats.NonTrivial = reply[1]>>4 != 0
			return v
		}
		if a.err != nil || rerr != nil {
			return fail("valid handshake % x failed: accept err=%v, reply err=%v", hs, a.err, rerr)
		}
		if reply[0] != 0x7f || reply[1]&0xf != hs[1]&0xf || reply[2] != 0 || reply[3] != 0 {
			return fail("handshake % x answered with % x: serializer not echoed or reserved bytes set", hs, reply)
		}
		// the server must announce a limit that is >= the configured one (power of two)
		serverLimit = 1 << (9 + uint(reply[1]>>4))
		if srvLimit > 0 && (serverLimit < srvLimit || serverLimit >= 2*srvLimit && srvLimit >= 512) {
			return fail("server configured with receive limit %d announced %d", srvLimit, serverLimit)
		}
		clientLimit = 1 << (9 + uint(hs[1]>>4))
		peer = a.p
		go cli.readLoop()
		v.Stats.Label("handshake_ok")
	} else {
		payload := 2
		if ser == "json" {
			payload = 1
		}
		var sws *memWS
		cws, sws = newMemWSPair("wamp.2." + ser)
		peer = transport.NewWebsocketPeer(sws, serializerFor(ser), payload, log, 0, qsize)
		wsIn = newInbuf()
		go func() {
			defer wsIn.setClosed()
			for {
				_, data, err := cws.ReadMessage()
				if err != nil {
					return
				}
				wsIn.put(&rawBytesMsg{B: data})
			}
		}()
	}
	defer func() {
		// best-effort cleanup on early returns
		if v.Kind != "ok" || true {
			if rs && cli != nil {
				_ = cli.conn.Close()
			}
			if cws != nil {
				_ = cws.Close()
			}
		}
	}()
	// run the script
	seq := 0
	alive := true
	var expectC []wamp.Message // messages the client must have received, in order
	var gotC []wamp.Message
	var expectS []wamp.Message
	var gotS []wamp.Message
	var expectPong [][]byte
	var gotPong [][]byte
	boundaryThenDelivered, sawBoundary := false, false
	wsWrite := func(typ int, b []byte) bool {
		t := time.NewTimer(time.Minute)
		defer t.Stop()
		select {
		case cws.wr <- wsFrame{typ, b}:
			return true
		case <-cws.peerClosed:
			return false
		case <-t.C:
			return false
		}
	}
	collect := func() *Verdict {
		synctest.Wait()
		if rs {
			frames, mid, _ := cli.take()
			for _, f := range frames {
				switch f.typ & 7 {
				case 0:
					m, err := s.Deserialize(f.payload)
					if err != nil {
						vv := fail("the client received a frame that does not decode (%v): % x", err, f.payload[:min(len(f.payload), 60)])
						return &vv
					}
					gotC = append(gotC, m)
				case 2:
					gotPong = append(gotPong, f.payload)
				default:
					vv := fail("the client received a frame of type %d", f.typ)
					return &vv
				}
			}
			if mid && alive {
				vv := fail("the byte stream towards the client stops in the middle of a frame at quiescence (interleaved or truncated write)")
				return &vv
			}
		} else {
			ms, _ := wsIn.drain()
			for _, m := range ms {
				d, err := s.Deserialize(m.(*rawBytesMsg).B)
				if err != nil {
					vv := fail("the websocket client received an undecodable message: %v", err)
					return &vv
				}
				gotC = append(gotC, d)
			}
		}
		for {
			select {
			case m, ok := <-peer.Recv():
				if !ok {
					alive = false
					return nil
				}
				gotS = append(gotS, m)
				continue
			default:
			}
			break
		}
		return nil
	}
	doOp := func(op *Op) {
		switch op.K {
		case "s2c":
			seq++
			m, n := sizedMsg(ser, seq, sizeFor(op.N, clientLimit))
			select {
			case peer.Send() <- m:
			default:
				tr("s2c #%d not queued (queue full)", seq)
				return
			}
			if n <= clientLimit || !rs {
				expectC = append(expectC, m)
				if sawBoundary {
					boundaryThenDelivered = true
				}
			}
			if op.N >= 1 && op.N <= 4 {
				sawBoundary = true
			}
			tr("s2c #%d len=%d (client limit %d)", seq, n, clientLimit)
		case "s2cunser":
			seq++
			m := &wamp.Publish{Request: wamp.ID(seq), Options: wamp.Dict{}, Topic: "t", Arguments: wamp.List{unserializable{make(chan int)}}}
			select {
			case peer.Send() <- m:
			default:
			}
			sawBoundary = true
			tr("s2c #%d unserialisable", seq)
		case "c2s":
			seq++
			m, n := sizedMsg(ser, seq, sizeFor(op.N, serverLimit))
			b, _ := s.Serialize(m)
			if rs {
				cli.write(append([]byte{0, byte(n >> 16), byte(n >> 8), byte(n)}, b...))
				if n > serverLimit {
					alive = false
					tr("c2s #%d len=%d > server limit %d: connection must end", seq, n, serverLimit)
					return
				}
			} else {
				typ := 2
				if ser == "json" {
					typ = 1
				}
				wsWrite(typ, b)
			}
			expectS = append(expectS, m)
			tr("c2s #%d len=%d", seq, n)
		case "c2sbad":
			junk := bytes.Repeat([]byte{0xc1}, op.N)
			if rs {
				cli.write(append([]byte{0, 0, 0, byte(len(junk))}, junk...))
			} else {
				wsWrite(2, junk)
			}
			tr("c2s undecodable payload of %d bytes", len(junk))
		case "c2sreserved":
			cli.write([]byte{byte(op.N), 0, 0, 1, 0xaa})
			alive = false
			tr("c2s frame of reserved type %d: connection must end", op.N)
		case "c2strunc":
			cli.write([]byte{0, 0, 0, 50, 1, 2, 3})
			_ = cli.conn.Close()
			alive = false
			tr("c2s truncated frame then close")
		case "ping":
			p := bytes.Repeat([]byte{byte(seq + 1)}, op.N)
			cli.write(append([]byte{1, 0, byte(len(p) >> 8), byte(len(p))}, p...))
			expectPong = append(expectPong, p)
			tr("ping %d bytes", len(p))
		}
	}
	for i := 0; i < len(c.Ops) && alive; {
		if c.Ops[i].Par {
			var wg sync.WaitGroup
			for i < len(c.Ops) && c.Ops[i].Par {
				op := &c.Ops[i]
				if op.K == "ping" {
					// pings from a second goroutine, concurrently with router->client traffic
					p := bytes.Repeat([]byte{byte(i + 1)}, op.N)
					expectPong = append(expectPong, p)
					wg.Add(1)
					go func() {
						defer wg.Done()
						cli.write(append([]byte{1, 0, byte(len(p) >> 8), byte(len(p))}, p...))
					}()
				} else {
					doOp(op)
				}
				i++
			}
			wg.Wait()
			v.Stats.Label("par_batch")
		} else {
			doOp(&c.Ops[i])
			i++
		}
		if bad := collect(); bad != nil {
			return *bad
		}
	}
	time.Sleep(5 * time.Second)
	if bad := collect(); bad != nil {
		return *bad
	}
	// compare
	cmp := func(dir string, want, got []wamp.Message) *Verdict {
		if len(want) != len(got) {
			vv := fail("%s: %d messages expected, %d arrived (expected %s; arrived %s)", dir, len(want), len(got), seqOf(want), seqOf(got))
			return &vv
		}
		for i := range want {
			if d := msgEqual(want[i], got[i]); d != "" {
				vv := fail("%s: message %d differs: %s", dir, i, d)
				return &vv
			}
		}
		return nil
	}
	if bad := cmp("router->client", expectC, gotC); bad != nil {
		return *bad
	}
	if bad := cmp("client->router", expectS, gotS); bad != nil {
		return *bad
	}
	if rs {
		// every PING sent while the connection was alive gets one PONG with the same payload
		if alive || len(gotPong) > len(expectPong) {
			if len(gotPong) != len(expectPong) && alive {
				return fail("%d PINGs sent, %d PONGs received", len(expectPong), len(gotPong))
			}
		}
		sortBytes := func(x [][]byte) []string {
			var out []string
			for _, b := range x {
				out = append(out, string(b))
			}
			sort.Strings(out)
			return out
		}
		gp, ep := sortBytes(gotPong), sortBytes(expectPong)
		j := 0
		for _, g := range gp {
			for j < len(ep) && ep[j] != g {
				j++
			}
			if j == len(ep) {
				return fail("a PONG carries a payload that no PING had: % x", g)
			}
			j++
		}
		if len(expectPong) > 0 {
			v.Stats.Label("ping_pong")
		}
	}
	// shutdown: the peer must close cleanly
	if rs {
		_ = cli.conn.Close()
	} else {
		_ = cws.Close()
	}
	synctest.Wait()
	done := make(chan struct{})
	go func() { peer.Close(); close(done) }()
	synctest.Wait()
	time.Sleep(10 * time.Second)
	synctest.Wait()
	select {
	case <-done:
	default:
		return fail("peer.Close() did not return")
	}
	if boundaryThenDelivered {
		v.Stats.NonTrivial = true
		v.Stats.Label("boundary_then_delivered")
	}
	if !alive {
		v.Stats.Label("connection_ended_by_bad_frame")
	}
	return v
}

func seqOf(ms []wamp.Message) string {
	var out []string
	for _, m := range ms {
		if p, ok := m.(*wamp.Publish); ok {
			out = append(out, fmt.Sprintf("#%d", p.Request))
		} else {
			out = append(out, fmt.Sprintf("%T", m))
		}
	}
	return "[" + strings.Join(out, " ") + "]"
}

// ---- transparency executor --------------------------------------------------------

type recordOracle struct {
	baseOracle
	steps   []map[int][]wamp.Message
	sent    [][]sentRec
	stepOps [][]int
}

func (r *recordOracle) OnStep(e *Engine, st *StepRec) *Violation {
	if st.Phase == "drop" || st.Phase == "close" {
		return nil
	}
	recv := st.Recv
	if recv == nil {
		recv = map[int][]wamp.Message{}
	}
	// a session whose transport the router closed in this step: marked, so that
	// the comparison knows it ended even when the router's last message (GOODBYE,
	// ABORT) was discarded by the closing transport
	for _, idx := range st.Closed {
		recv[idx] = append(recv[idx], &wamp.Abort{Reason: endedMarker})
	}
	r.steps = append(r.steps, recv)
	r.sent = append(r.sent, st.Sent)
	r.stepOps = append(r.stepOps, st.OpIdx)
	return nil
}

const endedMarker = wamp.URI("verif.session.ended")

// canonTrace renders per-session observations so that two runs that differ only
// in the router's random ids (and in orders that depend on map iteration) give
// the same lines. Ids are not named by first appearance - that order depends on
// map iteration inside the router (session lists, fan-out order) - but by the
// rank of an isomorphism-invariant signature: the multiset of places (step,
// session, message with all ids masked, position) in which the id occurs,
// refined twice. Ids that cannot be told apart that way get the same name.
func canonTrace(steps []map[int][]wamp.Message, nsess int) []string {
	type obs struct {
		step, sess int
		typ        string
		fields     []any
		meta       bool // a RESULT: id lists come out in map iteration order
	}
	var prep func(x any) any
	prep = func(x any) any {
		switch v := x.(type) {
		case string:
			// ISO timestamps differ between runs
			if len(v) >= 19 && v[4] == '-' && v[10] == 'T' {
				return "<time>"
			}
			return v
		case map[string]any:
			if len(v) == 0 {
				return nil // an empty container and null are the same observation
			}
			out := map[string]any{}
			for k, e := range v {
				out[k] = prep(e)
			}
			return out
		case []any:
			if len(v) == 0 {
				return nil
			}
			out := make([]any, len(v))
			for i, e := range v {
				out[i] = prep(e)
			}
			return out
		}
		return x
	}
	var all []obs
	for si, st := range steps {
		for s := 0; s < nsess; s++ {
			msgs := st[s]
			for _, m := range msgs {
				// the step in which a session ends: what else reaches it while it
				// is being removed is order dependent, and over a serialised
				// transport even the router's GOODBYE / ABORT may be discarded by
				// the closing transport: only the fact that it ended is compared
				switch m.(type) {
				case *wamp.Goodbye, *wamp.Abort:
					msgs = []wamp.Message{&wamp.Abort{Reason: endedMarker}}
				}
			}
			for _, m := range msgs {
				o := obs{step: si, sess: s, typ: m.MessageType().String()}
				if a, ok := m.(*wamp.Abort); ok && a.Reason == endedMarker {
					o.typ = "ENDED"
					all = append(all, o)
					continue
				}
				switch x := m.(type) {
				case *wamp.Welcome:
					o.fields = []any{prep(Canon(x.ID))}
				case *wamp.Result:
					// stored events arrive as Go structs in-process and as maps when serialised
					o.meta = true
					o.fields = []any{prep(Canon(x.Request)), prep(Canon(x.Details)), prep(canonStored(x.Arguments)), prep(Canon(x.ArgumentsKw))}
				case *wamp.Event:
					// publication ids are random and, for the meta events of one
					// departure, assigned in map-iteration order. C01 owns their consistency.
					cp := *x
					cp.Publication = 0
					if tp, _ := wamp.AsString(cp.Details["topic"]); (tp == "wamp.subscription.on_delete" || tp == "wamp.registration.on_delete") && len(cp.Arguments) > 0 {
						// which of several sessions ending at once removes the last member of a
						// shared subscription / registration depends on the order in which the
						// router takes them (map iteration): the session named in on_delete is
						// not compared between runs (C18 judges it against the model)
						cp.Arguments = append(wamp.List{"<session>"}, cp.Arguments[1:]...)
					}
					for _, f := range reflectFields(&cp) {
						o.fields = append(o.fields, prep(Canon(f)))
					}
				default:
					for _, f := range reflectFields(m) {
						o.fields = append(o.fields, prep(Canon(f)))
					}
				}
				all = append(all, o)
			}
		}
	}
	isID := func(x any) (uint64, bool) {
		if v, ok := x.(int64); ok && v > 1<<20 { // router-chosen random ids are large; small numbers are payload
			return uint64(v), true
		}
		return 0, false
	}
	// render one value under a naming; occ (optional) is told every id and its position
	var render func(x any, meta bool, name func(uint64) string, path string, occ func(id uint64, path string)) any
	render = func(x any, meta bool, name func(uint64) string, path string, occ func(uint64, string)) any {
		if id, ok := isID(x); ok {
			if occ != nil {
				occ(id, path)
			}
			return name(id)
		}
		switch v := x.(type) {
		case map[string]any:
			out := map[string]any{}
			for k, e := range v {
				out[k] = render(e, meta, name, path+"/"+k, occ)
			}
			return out
		case []any:
			out := make([]any, len(v))
			allIDs := true
			for _, e := range v {
				switch e.(type) {
				case int64, string:
				default:
					allIDs = false
				}
			}
			sortable := allIDs && len(v) > 1 && meta
			for i, e := range v {
				p := path + "/*"
				if !sortable {
					p = fmt.Sprintf("%s/%d", path, i)
				}
				out[i] = render(e, meta, name, p, occ)
			}
			if sortable {
				sort.Slice(out, func(i, j int) bool { return fmt.Sprint(out[i]) < fmt.Sprint(out[j]) })
			}
			return out
		}
		return x
	}
	line := func(o *obs, name func(uint64) string, occ func(uint64, string)) string {
		parts := make([]string, len(o.fields))
		for i, f := range o.fields {
			r := render(f, o.meta, name, fmt.Sprint(i), occ)
			if isEmptyCanon(r) {
				r = nil
			}
			parts[i] = Show(r)
		}
		return fmt.Sprintf("step%d s%d %s %s", o.step, o.sess, o.typ, strings.Join(parts, " "))
	}
	names := map[uint64]string{}
	name := func(id uint64) string {
		if n, ok := names[id]; ok {
			return n
		}
		return "id#?"
	}
	for round := 0; round < 3; round++ {
		sig := map[uint64][]string{}
		for i := range all {
			o := &all[i]
			var found []struct {
				id uint64
				p  string
			}
			l := line(o, name, func(id uint64, p string) {
				found = append(found, struct {
					id uint64
					p  string
				}{id, p})
			})
			for _, f := range found {
				sig[f.id] = append(sig[f.id], l+" @"+f.p)
			}
		}
		keyOf := map[uint64]string{}
		var keys []string
		for id, occs := range sig {
			sort.Strings(occs)
			k := strings.Join(occs, "\n")
			keyOf[id] = k
			keys = append(keys, k)
		}
		sort.Strings(keys)
		rank := map[string]int{}
		for _, k := range keys {
			if _, ok := rank[k]; !ok {
				rank[k] = len(rank) + 1
			}
		}
		next := map[uint64]string{}
		for id, k := range keyOf {
			next[id] = fmt.Sprintf("id#%d", rank[k])
		}
		names = next
	}
	type ln struct {
		step, sess int
		s          string
	}
	lines := make([]ln, len(all))
	for i := range all {
		lines[i] = ln{all[i].step, all[i].sess, line(&all[i], name, nil)}
	}
	// what one session receives within one step is compared as a multiset:
	// independent messages (several calls cancelled by one departure) come in
	// no particular order; ordering is C08's subject
	sort.SliceStable(lines, func(i, j int) bool {
		if lines[i].step != lines[j].step {
			return lines[i].step < lines[j].step
		}
		if lines[i].sess != lines[j].sess {
			return lines[i].sess < lines[j].sess
		}
		return lines[i].s < lines[j].s
	})
	out := make([]string, len(lines))
	for i := range lines {
		out[i] = lines[i].s
	}
	return out
}

func canonStored(l wamp.List) any {
	out := make([]any, len(l))
	for i, item := range l {
		if _, ok := evField(item, "Publication"); ok {
			m := map[string]any{}
			for _, f := range []string{"Subscription", "Publication", "Details", "Arguments", "ArgumentsKw"} {
				fv, _ := evField(item, f)
				cv := Canon(fv)
				if isEmptyCanon(cv) {
					cv = nil
				}
				m[f] = cv
			}
			out[i] = m
		} else {
			out[i] = Canon(item)
		}
	}
	return out
}

func msgCanonLine(m wamp.Message, rename func(any) any) string {
	rv := reflectFields(m)
	var parts []string
	for _, f := range rv {
		cv := Canon(f)
		if isEmptyCanon(cv) {
			cv = nil
		}
		parts = append(parts, Show(rename(cv)))
	}
	return fmt.Sprintf("%s %s", m.MessageType(), strings.Join(parts, " "))
}

func execTransparency(c *Case, trace bool) Verdict {
	v := Verdict{Kind: "ok", Prop: "C15"}
	trs, _ := c.P["transports"].Go().([]string)
	var ref []string
	var refName string
	delivered := false
	for _, tr := range trs {
		cc := *c
		cc.Sess = append([]SessCfg(nil), c.Sess...)
		for i := range cc.Sess {
			if tr != "local" {
				cc.Sess[i].Transport = tr
			} else {
				cc.Sess[i].Transport = ""
			}
			if strings.HasPrefix(tr, "ws-") {
				// the router side may run the websocket ping/pong heartbeat (its other send loop)
				if ka, ok := c.P["keepalive"]; ok {
					cc.Sess[i].KeepAlive, _ = ka.Go().(int64)
				}
			}
		}
		e := NewEngine(&cc)
		ro := &recordOracle{}
		if viol := e.Run(ro); viol != nil {
			return Verdict{Kind: "violation", Prop: "C15", Reason: "scenario failed on " + tr + ": " + viol.Reason}
		}
		lines := canonTrace(ro.steps, len(cc.Sess))
		for _, l := range lines {
			if strings.Contains(l, " EVENT ") || strings.Contains(l, " RESULT ") {
				delivered = true
			}
		}
		if ref == nil {
			ref, refName = lines, tr
			continue
		}
		if d := firstDiff(ref, lines); d != "" {
			v := Verdict{Kind: "violation", Prop: "C15", Reason: fmt.Sprintf("the same scenario is observed differently over %s and %s: %s", refName, tr, d)}
			if trace {
				v.Trace = append(append([]string{"--- " + refName}, ref...), append([]string{"--- " + tr}, lines...)...)
			}
			return v
		}
	}
	v.Stats.Label(fmt.Sprintf("transports:%d", len(trs)))
	v.Stats.NonTrivial = len(trs) >= 3 && delivered
	return v
}

func firstDiff(a, b []string) string {
	n := min(len(a), len(b))
	for i := 0; i < n; i++ {
		if a[i] != b[i] {
			return fmt.Sprintf("observation %d:\n  %s\n  %s", i, a[i], b[i])
		}
	}
	if len(a) != len(b) {
		longer := a
		if len(b) > len(a) {
			longer = b
		}
		return fmt.Sprintf("%d vs %d observations; first extra: %s", len(a), len(b), longer[n])
	}
	return ""
}

func execC15(t *testing.T, c *Case, trace bool) Verdict {
	switch c.P["mode"].S {
	case "rs", "ws":
		return execFrames(c, trace)
	case "tp":
		return execTransparency(c, trace)
	}
	return Verdict{Kind: "inconclusive", Reason: "unknown C15 mode"}
}
