package harness

// C04 — no client input or timing can crash or wedge the router.
// Generators: G1 message level (hostile options, out-of-state messages,
// hostile handshakes, disconnects, par batches) over every transport; G2 wire
// level (rawsocket byte streams, websocket frames). Oracle: the worker process
// stays alive (panic / fatal error / race report = crash verdict by the shard)
// and an uninvolved probe session is served at the same virtual instant.

import (
	"fmt"
	"strings"
	"time"

	"github.com/gammazero/nexus/v3/transport/serialize"
	"github.com/gammazero/nexus/v3/wamp"
	"pgregory.net/rapid"
)

func init() {
	register(&Property{
		ID: "C04",
		Rule: "rapid-generated hostile sessions: (G1) 2-4 sessions over local/rawsocket/websocket x JSON/MessagePack/CBOR sending well-formed traffic mixed with messages of every WAMP type in every session state, " +
			"every known option/detail key set to values of every type (nil, bool, ints, floats, strings, binary, lists, dicts, Go-native types for in-process peers), meta procedure calls with hostile arguments, hostile HELLO details, " +
			"first-message violations, disconnects at any point, concurrent (par) batches; (G2) rawsocket byte streams (handshake variants, every frame type nibble and reserved bit, lengths around the limit, truncation, PING/PONG, garbage) and websocket frames " +
			"(text/binary mismatch, undecodable payloads, control frames). Oracle: worker process alive (no panic, fatal error, race report) and a fresh probe session completes pub/sub, meta and RPC round trips with zero virtual delay, after the hostile part and again 24 virtual hours later. " +
			"Non-trivial = a case in which a hostile-typed option or out-of-state message reached broker/dealer/meta code of an established session, or a wire input passed the handshake; distinct = case hash",
		Gen:             genC04,
		NewOracle:       func(c *Case) Oracle { return &c04Oracle{c: c} },
		LivenessClaimed: true,
		ParRuns:         2,
		Assumptions: []string{
			"a quarter of the shards run the -race build: an unsynchronised access to shared data is a crash verdict there",
			"hostile values over in-process peers include Go-native types no serializer can produce; over serialised transports only what the codec can encode",
		},
	})
}

type c04Oracle struct {
	baseOracle
	c *Case
}

func (o *c04Oracle) OnStep(e *Engine, st *StepRec) *Violation {
	for _, sr := range st.Sent {
		if sr.Op >= 0 && e.C.Ops[sr.Op].N == 777 {
			o.st.NonTrivial = true
		}
		switch sr.Msg.(type) {
		case *rawBytesMsg, *rawWSMsg:
			o.st.Label("wire_chunk_accepted")
		}
	}
	if st.Phase != "settle" && !(st.Phase == "op" && len(st.OpIdx) > 0 && st.OpIdx[len(st.OpIdx)-1] == len(e.C.Ops)-1) {
		return nil
	}
	realm := e.C.Realms[0].URI
	el, err := e.Probe(realm)
	if err != nil {
		return &Violation{Prop: "C04", Step: st.N, Reason: "after the hostile traffic an uninvolved session is not served: " + err.Error()}
	}
	// All other sessions keep reading during the probe, so nothing may hold the
	// router back for longer than a few result-retry ticks (1, 2, 4 ... ms) left
	// over from the moment before the probe started.
	if el > time.Second {
		return &Violation{Prop: "C04", Step: st.N, Reason: fmt.Sprintf("an uninvolved session was served only after %v of virtual time", el)}
	}
	if el > 0 {
		o.st.Label("probe_delayed_within_retry_period")
	}
	o.st.Label("probe_ok")
	return nil
}

// ---- hostile values ---------------------------------------------------------------

var optionKeys = []string{"acknowledge", "exclude_me", "exclude", "eligible", "exclude_authid", "eligible_authid", "exclude_authrole", "eligible_authrole",
	"disclose_me", "disclose_caller", "match", "invoke", "timeout", "receive_progress", "progress", "mode", "reason", "message",
	"ppt_scheme", "ppt_serializer", "ppt_cipher", "ppt_keyid", "forward_timeout", "sticky", "procedure", "topic",
	"limit", "reverse", "from_time", "from_publication", "scope", "publish_options", "x_custom"}

func genHostileValue(t *rapid.T, native bool) V {
	if pct(t, 25, "plausible") {
		return pick(t, []V{VBool(true), VBool(false), VStr("x_a"), VStr("prefix"), VStr("wildcard"), VStr("roundrobin"), VStr("kill"), VStr("skip"), VStr("foo"),
			VI64(1), VI64(50), VStr("mqtt"), VStr("native"), VStr("cbor"), VList(VRef("sid:0")), VList(VStr("u1"))}, "pv")
	}
	return genValue(t, 2, valOpts{bin: true, big: true, native: native})
}

func genHostileOpts(t *rapid.T, native bool, n int) []KV {
	var out []KV
	k := 1 + uni(t, n, "nopts")
	for i := 0; i < k; i++ {
		out = append(out, KV{pick(t, optionKeys, "okey"), genHostileValue(t, native)})
	}
	return out
}

var msgTypes = []int{1, 2, 3, 4, 5, 6, 8, 16, 17, 32, 33, 34, 35, 36, 48, 49, 50, 64, 65, 66, 67, 68, 69, 70}

func genRawMsg(t *rapid.T, nsess int, native bool) *RawMsg {
	typ := pick(t, msgTypes, "mtype")
	m := wamp.NewMessage(wamp.MessageType(typ))
	_ = m
	idV := func() V {
		switch uni(t, 6, "idk") {
		case 0:
			return VRef(fmt.Sprintf("sub:%d:%d", uni(t, nsess, "w"), uni(t, 3, "n")))
		case 1:
			return VRef(fmt.Sprintf("reg:%d:%d", uni(t, nsess, "w"), uni(t, 3, "n")))
		case 2:
			return VRef(fmt.Sprintf("inv:%d:%d", uni(t, nsess, "w"), uni(t, 3, "n")))
		case 3:
			return VRef(fmt.Sprintf("call:%d:%d", uni(t, nsess, "w"), uni(t, 3, "n")))
		case 4:
			return VID(pick(t, []uint64{0, 1, 2, 1 << 53, 1<<53 + 1, 1 << 63, ^uint64(0)}, "idv"))
		}
		return VID(uint64(1 + uni(t, 40, "smallid")))
	}
	uriV := func() V {
		return VURI(pick(t, []string{"a", "a.b", "", "wamp.session.count", "wamp.error.canceled", "a b", "..", "wamp.session.kill_all", "é.ü"}, "uriv"))
	}
	dictV := func() V { return V{T: "dict", K: genHostileOpts(t, native, 3)} }
	listV := func() V {
		if pct(t, 30, "nillist") {
			return VNil()
		}
		return VList(genArgs(t, valOpts{bin: true, big: true, native: native})...)
	}
	var f []V
	switch typ {
	case 1:
		f = []V{uriV(), dictV()}
	case 2:
		f = []V{idV(), dictV()}
	case 3, 6:
		f = []V{dictV(), uriV()}
	case 4:
		f = []V{VStr("ticket"), dictV()}
	case 5:
		f = []V{VStr("sig"), dictV()}
	case 8:
		f = []V{VI64(int64(pick(t, msgTypes, "etype"))), idV(), dictV(), uriV(), listV(), dictV()}
	case 16:
		f = []V{idV(), dictV(), uriV(), listV(), dictV()}
	case 17, 33, 65:
		f = []V{idV(), idV()}
	case 32, 64:
		f = []V{idV(), dictV(), uriV()}
	case 34, 66:
		f = []V{idV(), idV()}
	case 35, 67:
		f = []V{idV()}
	case 36:
		f = []V{idV(), idV(), dictV(), listV(), dictV()}
	case 48:
		f = []V{idV(), dictV(), uriV(), listV(), dictV()}
	case 49, 69:
		f = []V{idV(), dictV()}
	case 50, 70:
		f = []V{idV(), dictV(), listV(), dictV()}
	case 68:
		f = []V{idV(), idV(), dictV(), listV(), dictV()}
	}
	return &RawMsg{Type: typ, Fields: f}
}

func frameRS(typ byte, payload []byte, lenDelta int) []byte {
	n := len(payload) + lenDelta
	if n < 0 {
		n = 0
	}
	return append([]byte{typ, byte(n >> 16), byte(n >> 8), byte(n)}, payload...)
}

func serializeWith(ser string, m wamp.Message) []byte {
	var s serialize.Serializer = serializerFor(ser)
	b, err := s.Serialize(m)
	if err != nil {
		return []byte{0}
	}
	return b
}

func fullRolesDict() wamp.Dict {
	roles := wamp.Dict{}
	for role := range allRoles {
		roles[role] = wamp.Dict{"features": wamp.Dict{"payload_passthru_mode": true, "call_canceling": true}}
	}
	return roles
}

// genWireSession builds the byte-stream ops of one rawsocket session.
func genWireOps(t *rapid.T, s int) []Op {
	var ops []Op
	ops = append(ops, Op{K: "attach", S: s})
	ser := pick(t, []string{"json", "msgpack", "cbor"}, "ser")
	proto := map[string]byte{"json": 1, "msgpack": 2, "cbor": 3}[ser]
	var hs []byte
	valid := pct(t, 75, "validhs")
	if valid {
		hs = []byte{0x7f, byte(uni(t, 16, "lennib"))<<4 | proto, 0, 0}
	} else {
		hs = []byte{pick(t, []byte{0x7f, 0x7f, 0x00, 0x7e}, "magic"), rapid.Byte().Draw(t, "b1"), pick(t, []byte{0, 0, 1, 0xff}, "r2"), pick(t, []byte{0, 0, 1}, "r3")}
		if pct(t, 30, "shorths") {
			hs = hs[:uni(t, 4, "hslen")]
		}
	}
	ops = append(ops, Op{K: "bytes", S: s, Args: []V{VBin(hs)}})
	hello := serializeWith(ser, &wamp.Hello{Realm: "r1", Details: wamp.Dict{"roles": fullRolesDict()}})
	nchunks := uni(t, 7, "nchunks")
	joined := false
	for i := 0; i < nchunks; i++ {
		var b []byte
		switch k := uni(t, 100, "ck"); {
		case k < 22 && !joined:
			b = frameRS(0, hello, 0)
			joined = true
		case k < 45:
			var m wamp.Message
			switch uni(t, 5, "mk") {
			case 0:
				m = &wamp.Subscribe{Request: wamp.ID(i + 1), Options: wamp.Dict{}, Topic: "a.b"}
			case 1:
				m = &wamp.Publish{Request: wamp.ID(i + 1), Options: wamp.Dict{"acknowledge": true, "ppt_scheme": "x_a", "ppt_serializer": 5}, Topic: "a.b", Arguments: wamp.List{1}}
			case 2:
				m = &wamp.Call{Request: wamp.ID(i + 1), Options: wamp.Dict{}, Procedure: "wamp.session.list"}
			case 3:
				m = &wamp.Register{Request: wamp.ID(i + 1), Options: wamp.Dict{"invoke": "foo"}, Procedure: "a.b"}
			default:
				m = &wamp.Goodbye{Reason: "wamp.close.close_realm", Details: wamp.Dict{}}
			}
			b = frameRS(0, serializeWith(ser, m), 0)
		case k < 60:
			// every type nibble and reserved bits
			b = frameRS(byte(uni(t, 8, "ftype"))|byte(uni(t, 32, "resv"))<<3, rapid.SliceOfN(rapid.Byte(), 0, 20).Draw(t, "payload"), 0)
		case k < 70:
			b = frameRS(0, hello, pick(t, []int{-1, 1, -4, 100, 1 << 20, 1<<24 - 1 - len(hello)}, "lendelta"))
		case k < 78:
			b = frameRS(1, rapid.SliceOfN(rapid.Byte(), 0, 40).Draw(t, "ping"), 0)
		case k < 86:
			b = frameRS(0, hello, 0)
			b = b[:uni(t, len(b), "trunc")]
		default:
			b = rapid.SliceOfN(rapid.Byte(), 1, 24).Draw(t, "junk")
		}
		op := Op{K: "bytes", S: s, Args: []V{VBin(b)}}
		if valid && joined {
			op.N = 777
		}
		ops = append(ops, op)
	}
	if pct(t, 40, "wiredrop") {
		ops = append(ops, Op{K: "drop", S: s})
	}
	return ops
}

func genWSOps(t *rapid.T, s int, text bool) []Op {
	var ops []Op
	ops = append(ops, Op{K: "attach", S: s})
	ser := "msgpack"
	typ := 2
	if text {
		ser, typ = "json", 1
	}
	hello := serializeWith(ser, &wamp.Hello{Realm: "r1", Details: wamp.Dict{"roles": fullRolesDict()}})
	n := uni(t, 7, "nframes")
	joined := false
	for i := 0; i < n; i++ {
		op := Op{K: "wsframe", S: s, N: typ}
		switch k := uni(t, 100, "wk"); {
		case k < 25 && !joined:
			op.Args = []V{VBin(hello)}
			joined = true
		case k < 45:
			op.Args = []V{VBin(serializeWith(ser, &wamp.Publish{Request: wamp.ID(i + 1), Options: wamp.Dict{"acknowledge": true}, Topic: "a.b"}))}
		case k < 60:
			op.N = 3 - typ // text/binary mismatch
			op.Args = []V{VBin(hello)}
		case k < 72:
			op.N = pick(t, []int{8, 9, 10}, "ctrl")
			op.Args = []V{VBin(rapid.SliceOfN(rapid.Byte(), 0, 10).Draw(t, "ctrlpayload"))}
		default:
			op.Args = []V{VBin(rapid.SliceOfN(rapid.Byte(), 0, 30).Draw(t, "junk"))}
		}
		if joined {
			ops = append(ops, Op{K: op.K, S: op.S, N: op.N, Args: op.Args})
			ops[len(ops)-1].Mode = "joined"
		} else {
			ops = append(ops, op)
		}
	}
	return ops
}

func genC04(t *rapid.T) *Case {
	c := &Case{Realms: []RealmCfg{{URI: "r1", Anonymous: true, AllowDisclose: rapid.Bool().Draw(t, "ad"), MetaKill: true, MetaModify: true, Strict: pct(t, 15, "strict"),
		History: []HistCfg{{Topic: "a.b", Limit: 2}}}}}
	c.GMP = pick(t, []int{0, 1, 2, 4, 16}, "gmp")
	n := 2 + uni(t, 3, "nsess")
	wire := -1
	if pct(t, 35, "haswire") {
		wire = n - 1
	}
	for i := 0; i < n; i++ {
		s := SessCfg{Realm: "r1"}
		if pct(t, 60, "full") {
			s.Roles = fullRoles()
		} else {
			s.Roles = genRoles(t)
		}
		if i == wire {
			s.Transport = pick(t, []string{"rsraw", "rsraw", "wsraw-text", "wsraw-binary"}, "wiretr")
			s.NoJoin = true
			if s.Transport == "rsraw" && pct(t, 50, "rl") {
				s.RecvLimit = pick(t, []int{512, 1024, 4096}, "recvlimit")
			}
		} else if pct(t, 45, "remote") {
			s.Transport = pick(t, remoteTransports, "tr")
			if strings.HasPrefix(s.Transport, "ws-") && pct(t, 30, "keepalive") {
				s.KeepAlive = pick(t, []int64{600e9, 3600e9}, "ka")
			}
		}
		if pct(t, 15, "tinyq") {
			s.QSize = 1 + uni(t, 2, "q")
		}
		if s.Transport == "" && pct(t, 30, "rewriter") {
			// an in-process application that rewrites what it is handed, while the router
			// may still be delivering the same publication to others
			s.Rewrite = true
		}
		if i != wire && pct(t, 15, "hostilehello") {
			s.Hello = append(s.Hello, KV{pick(t, []string{"roles", "authmethods", "authid", "authextra", "transport", "authrole", "session"}, "hk"), genHostileValue(t, s.Transport == "")})
		}
		if i != wire && pct(t, 12, "latejoin") {
			s.NoJoin = true
		}
		c.Sess = append(c.Sess, s)
	}
	nreal := n
	if wire >= 0 {
		nreal = n - 1
	}
	var callers, callees []int
	for i := 0; i < nreal; i++ {
		if i%2 == 0 {
			callers = append(callers, i)
		} else {
			callees = append(callees, i)
		}
	}
	mg := &mixGen{rpc: newRPCGen(nreal, c.Realms[0].Strict, "hostile", callers, callees), nsess: nreal, strict: c.Realms[0].Strict, profile: "C05", alive: make([]bool, nreal), ps: &psGen{nsess: nreal, strict: c.Realms[0].Strict}}
	native := func(s int) bool { return c.Sess[s].Transport == "" }
	ops := rapid.SliceOfN(rapid.Custom(func(t *rapid.T) Op {
		switch k := uni(t, 100, "k"); {
		case k < 35:
			// a normal op with hostile options merged in
			op := mg.op(t)
			if op.S >= 0 && op.S < nreal && op.K != "raw" && op.K != "advance" && pct(t, 60, "hostileopts") {
				op.Opts = append(op.Opts, genHostileOpts(t, native(op.S), 2)...)
				op.N = 777
			}
			return op
		case k < 60:
			s := uni(t, nreal, "rs")
			return Op{K: "raw", S: s, Msg: genRawMsg(t, nreal, native(s)), N: 777}
		case k < 72:
			// meta procedure with hostile arguments
			s := uni(t, nreal, "ms")
			op := mg.metaQuery(t)
			op.S = s
			op.URI = pick(t, []string{"wamp.session.count", "wamp.session.list", "wamp.session.get", "wamp.session.kill", "wamp.session.kill_by_authid", "wamp.session.kill_by_authrole", "wamp.session.kill_all",
				"wamp.session.modify_details", "wamp.session.add_testament", "wamp.session.flush_testaments", "wamp.registration.list", "wamp.registration.lookup", "wamp.registration.match", "wamp.registration.get",
				"wamp.registration.list_callees", "wamp.registration.count_callees", "wamp.subscription.list", "wamp.subscription.lookup", "wamp.subscription.match", "wamp.subscription.get",
				"wamp.subscription.list_subscribers", "wamp.subscription.count_suscribers", "wamp.subscription.get_events"}, "mproc")
			na := uni(t, 4, "nargs")
			op.Args = nil
			for i := 0; i < na; i++ {
				op.Args = append(op.Args, genHostileValue(t, native(s)))
			}
			op.Kw = genHostileOpts(t, native(s), 3)
			op.N = 777
			return op
		case k < 78:
			return Op{K: pick(t, []string{"drop", "goodbye", "join", "attach"}, "life"), S: uni(t, nreal, "ls")}
		case k < 84:
			return genAdvance(t)
		default:
			op := mg.op(t)
			return op
		}
	}), minHistory(t, 25), 25).Draw(t, "ops")
	// Scenario templates: multi-step setups that independent random ops rarely
	// line up (shared registration under one - possibly unknown - policy followed
	// by calls; subscription fan-out followed by hostile publications; a call
	// followed by hostile cancel / yield / error).
	var pre []Op
	for i := 0; i < uni(t, 3, "ntemplates"); i++ {
		switch uni(t, 4, "template") {
		case 3:
			// a testament whose publish options are hostile, then the owner's session ends:
			// the publication is made by the router's own meta session
			s := uni(t, nreal, "tts")
			for j := 0; j < 1+uni(t, 2, "ntest"); j++ {
				op := Op{K: "meta", S: s, URI: "wamp.session.add_testament", N: 777,
					Args: []V{VStr(genTopic(t)), VList(genArgs(t, valOpts{})...), V{T: "dict"}},
					Kw:   []KV{{"publish_options", V{T: "dict", K: genHostileOpts(t, native(s), 3)}}}}
				if pct(t, 40, "tscope") {
					op.Kw = append(op.Kw, KV{"scope", VStr(pick(t, []string{"detached", "destroyed", "x"}, "tsc"))})
				}
				pre = append(pre, op)
			}
			pre = append(pre, Op{K: pick(t, []string{"drop", "goodbye"}, "tend"), S: s})
		case 0:
			u := genTopic(t)
			pol := pick(t, []string{"foo", "roundrobin", "first", "random", "", "single", "foo"}, "tpol")
			m := genMatch(t)
			for j := 0; j < 2+uni(t, 3, "nreg"); j++ {
				op := Op{K: "register", S: uni(t, nreal, "trs"), URI: u, Mode: m}
				if pol != "" {
					op.Opts = append(op.Opts, KV{"invoke", VStr(pol)})
				}
				if pct(t, 30, "thost") {
					op.Opts = append(op.Opts, genHostileOpts(t, native(op.S), 1)...)
				}
				pre = append(pre, op)
			}
			var registrants []int
			for _, o := range pre {
				if o.K == "register" && o.URI == u {
					registrants = append(registrants, o.S)
				}
			}
			for j := 0; j < 1+uni(t, 2*len(registrants)+1, "ncall"); j++ {
				op := Op{K: "call", S: uni(t, nreal, "tcs"), URI: u, Args: genArgs(t, valOpts{})}
				if pct(t, 40, "thost2") {
					op.Opts = genHostileOpts(t, native(op.S), 2)
				}
				pre = append(pre, op)
			}
			if pct(t, 50, "tleave") && len(registrants) > 0 {
				// one of the callees goes away in the middle of the rotation, then more calls
				l := pick(t, registrants, "tleaver")
				switch uni(t, 3, "tleavehow") {
				case 0:
					pre = append(pre, Op{K: "unregister", S: l, Ref: "reg:-1:-1"})
				case 1:
					pre = append(pre, Op{K: "goodbye", S: l})
				default:
					pre = append(pre, Op{K: "drop", S: l})
				}
				for j := 0; j < 1+uni(t, 3, "ncall2"); j++ {
					pre = append(pre, Op{K: "call", S: uni(t, nreal, "tcs2"), URI: u, Args: genArgs(t, valOpts{})})
				}
			}
		case 1:
			u := genTopic(t)
			for j := 0; j < 2+uni(t, 3, "nsub"); j++ {
				pre = append(pre, Op{K: "subscribe", S: uni(t, nreal, "tss"), URI: u, Mode: pick(t, []string{"", "prefix", "wildcard"}, "tm")})
			}
			for j := 0; j < 1+uni(t, 3, "npub"); j++ {
				s := uni(t, nreal, "tps")
				pre = append(pre, Op{K: "publish", S: s, URI: u, Opts: append(genPublishOpts(t, nreal), genHostileOpts(t, native(s), 2)...), Args: genArgs(t, valOpts{}), N: 777})
			}
		default:
			u := genTopic(t)
			callee, caller := uni(t, nreal, "tce"), uni(t, nreal, "tcr")
			pre = append(pre, Op{K: "register", S: callee, URI: u})
			co := Op{K: "call", S: caller, URI: u, Opts: []KV{{"receive_progress", VBool(true)}}}
			if pct(t, 50, "tto") {
				co.Opts = append(co.Opts, KV{"timeout", genHostileValue(t, native(caller))})
			}
			pre = append(pre, co)
			for j := 0; j < 1+uni(t, 3, "nans"); j++ {
				switch uni(t, 3, "ans") {
				case 0:
					pre = append(pre, Op{K: "cancel", S: caller, Ref: "call:-1:0", Opts: genHostileOpts(t, native(caller), 2), N: 777})
				case 1:
					pre = append(pre, Op{K: "yield", S: callee, Ref: "inv:-1:0", Opts: genHostileOpts(t, native(callee), 2), Args: genArgs(t, valOpts{}), N: 777})
				default:
					pre = append(pre, Op{K: "error", S: callee, Ref: "inv:-1:0", Opts: genHostileOpts(t, native(callee), 2), N: 777})
				}
			}
		}
	}
	ops = append(pre, ops...)
	// par marking: a stretch of the ops runs concurrently
	if pct(t, 30, "par") && len(ops) >= 2 {
		from := uni(t, len(ops)-1, "parfrom")
		to := from + 1 + uni(t, min(5, len(ops)-from-1)+0, "parlen")
		for i := from; i <= to && i < len(ops); i++ {
			if ops[i].K != "advance" {
				ops[i].Par = true
			}
		}
	}
	c.Ops = ops
	if wire >= 0 {
		var wops []Op
		switch c.Sess[wire].Transport {
		case "rsraw":
			wops = genWireOps(t, wire)
		case "wsraw-text":
			wops = genWSOps(t, wire, true)
		default:
			wops = genWSOps(t, wire, false)
		}
		// interleave: wire ops go at a random position, kept in order
		pos := uni(t, len(c.Ops)+1, "wirepos")
		merged := append([]Op{}, c.Ops[:pos]...)
		merged = append(merged, wops...)
		merged = append(merged, c.Ops[pos:]...)
		c.Ops = merged
	}
	return c
}
