package harness

// Shared model scaffolding: a World (session table as the property statements
// see it) and a composite oracle that asks every model part for the exact
// messages each session must receive in a step, then compares them with what
// was observed at quiescence.

import (
	"fmt"
	"sort"
	"strings"
	"time"

	"github.com/gammazero/nexus/v3/wamp"
)

type mSess struct {
	idx    int
	realm  string
	cfg    *SessCfg
	started bool // HELLO accepted by the router side
	joined bool
	ended  bool
	sid    wamp.ID
	attrs  map[string]string // string-valued session details (authid, authrole, extra HELLO keys)
	local  bool
}

func (s *mSess) live() bool { return s.joined && !s.ended }

func (s *mSess) has(role, feat string) bool { return hasFeature(s.cfg, role, feat) }

func (s *mSess) trusted() bool { return s.attrs["authrole"] == "trusted" }

// expMsg is one expected message. optional ones may be absent.
type expMsg struct {
	desc     string
	match    func(m wamp.Message) bool
	optional bool
	seq      int    // >0: relative order constraint among a session's expectations of one step ...
	ordKey   string // ... that share this key (e.g. the same subscription)
}

type Exp map[int][]expMsg

func (e Exp) must(s int, desc string, match func(wamp.Message) bool) {
	e[s] = append(e[s], expMsg{desc: desc, match: match})
}

func (e Exp) may(s int, desc string, match func(wamp.Message) bool) {
	e[s] = append(e[s], expMsg{desc: desc, match: match, optional: true})
}

type World struct {
	prop   string
	c      *Case
	realms map[string]*RealmCfg
	sess   []*mSess
	st     *CaseStats
	// killed: session idx -> expected GOODBYE reason ("" = any) for sessions
	// that some part has determined must be ended by the router in this step.
	killed map[int]string
	// dying: sessions the router is ending in this step through a kill. What
	// else reaches them between the kill and the end of their session depends on
	// the order in which the router processes the victims, so only their
	// GOODBYE is asserted.
	dying map[int]bool
	// multiKill: several sessions are being ended by one request; the order in
	// which the router removes them (hence which of them deletes a shared
	// subscription/registration) is not determined.
	multiKill bool
	now       time.Duration
	// C07: sessions that have stopped reading. Messages routed to them pile up
	// in their outbound queue (capacity cap) and the rest is lost.
	stalled map[int]bool
	backlog map[int][]expMsg // what the stalled session will find when it reads again, in order
	unsure  map[int]bool     // an optional message was routed to it: occupancy no longer exact
	overflowed map[int]bool
}

// queueCap is how many messages can wait for a session that does not read:
// its configured queue, plus one that a serialised transport's send handler
// holds while it waits for the socket.
func (w *World) queueCap(s int) int {
	q := w.c.Sess[s].QSize
	if q == 0 {
		q = 64
	}
	if !w.sess[s].local {
		// one message in the send handler's hand and one already taken by the
		// client's pending socket read
		q += 2
	}
	return q
}

// routerProc reports whether the router itself provides the wamp.* procedure
// under the realm's configuration.
func routerProc(rc *RealmCfg, proc string) bool {
	switch proc {
	case "wamp.session.count", "wamp.session.list", "wamp.session.get",
		"wamp.registration.list", "wamp.registration.lookup", "wamp.registration.match", "wamp.registration.get", "wamp.registration.list_callees", "wamp.registration.count_callees",
		"wamp.subscription.list", "wamp.subscription.lookup", "wamp.subscription.match", "wamp.subscription.get", "wamp.subscription.list_subscribers", "wamp.subscription.count_suscribers",
		"wamp.subscription.get_events", "wamp.session.add_testament", "wamp.session.flush_testaments":
		return true
	case "wamp.session.kill", "wamp.session.kill_by_authid", "wamp.session.kill_by_authrole", "wamp.session.kill_all":
		return rc.MetaKill
	case "wamp.session.modify_details":
		return rc.MetaModify
	}
	return false
}

func newWorld(c *Case, prop string, st *CaseStats) *World {
	w := &World{prop: prop, c: c, realms: map[string]*RealmCfg{}, st: st, killed: map[int]string{}, dying: map[int]bool{},
		stalled: map[int]bool{}, backlog: map[int][]expMsg{}, unsure: map[int]bool{}, overflowed: map[int]bool{}}
	for i := range c.Realms {
		w.realms[c.Realms[i].URI] = &c.Realms[i]
	}
	for i := range c.Sess {
		tr := c.Sess[i].Transport
		w.sess = append(w.sess, &mSess{idx: i, realm: c.Sess[i].Realm, cfg: &c.Sess[i], attrs: map[string]string{}, local: tr == "" || tr == "local"})
	}
	return w
}

func (w *World) realm(s int) *RealmCfg {
	if r := w.realms[w.sess[s].realm]; r != nil {
		return r
	}
	if w.c.Template != nil {
		return w.c.Template
	}
	return &RealmCfg{}
}

func (w *World) fail(st *StepRec, format string, a ...any) *Violation {
	return &Violation{Prop: w.prop, Step: st.N, Reason: fmt.Sprintf(format, a...)}
}

// sidToIdx finds the live session with that router-assigned id in a realm.
func (w *World) sidToIdx(realm string, sid wamp.ID) int {
	for _, s := range w.sess {
		if s.joined && s.realm == realm && s.sid == sid {
			return s.idx
		}
	}
	return -1
}

// Part is one model component (broker, dealer, meta ...).
type Part interface {
	OnSent(w *World, st *StepRec, sr sentRec, exp Exp) *Violation
	OnEnded(w *World, st *StepRec, idx int, exp Exp)
	AfterStep(w *World, st *StepRec, exp Exp) *Violation
	Ignore(w *World, s int, m wamp.Message) bool
}

type compositeOracle struct {
	baseOracle
	w     *World
	parts []Part
	// hooks
	afterStep  func(e *Engine, st *StepRec) *Violation
	onQuiesced func(e *Engine) *Violation
	onClosed   func(e *Engine) *Violation
	finishStats func(st *CaseStats)
	// stopModelAtPar: from the first batch of concurrently issued operations on, the
	// step-by-step model is silent (the order in which the router processes the batch
	// is not determined); what must hold under every interleaving is judged by
	// onQuiesced over the complete inboxes.
	stopModelAtPar bool
	modelOff       bool
}

func newComposite(c *Case, prop string, mk func(w *World) []Part) *compositeOracle {
	o := &compositeOracle{}
	o.w = newWorld(c, prop, &o.st)
	o.parts = mk(o.w)
	return o
}

func (o *compositeOracle) endSession(st *StepRec, idx int, exp Exp) {
	s := o.w.sess[idx]
	if !s.started {
		return // never attached: dropping it is a no-op
	}
	if !s.joined || s.ended {
		s.ended = true
		return
	}
	s.ended = true
	for _, p := range o.parts {
		p.OnEnded(o.w, st, idx, exp)
	}
}

func clientMayMessage(m wamp.Message) bool {
	switch m := m.(type) {
	case *wamp.Publish, *wamp.Yield, *wamp.Call, *wamp.Cancel, *wamp.Subscribe, *wamp.Register, *wamp.Unsubscribe, *wamp.Unregister, *wamp.Goodbye:
		return true
	case *wamp.Error:
		return m.Type == wamp.INVOCATION
	}
	return false
}

func (o *compositeOracle) OnStep(e *Engine, st *StepRec) *Violation {
	if o.stopModelAtPar && !o.modelOff {
		for _, oi := range st.OpIdx {
			if oi >= 0 && oi < len(e.C.Ops) && e.C.Ops[oi].Par {
				o.modelOff = true
				o.st.Label("concurrent_batch_judged_by_invariants")
			}
		}
	}
	if o.modelOff {
		return nil
	}
	if v := o.onStep(e, st); v != nil {
		return v
	}
	if o.afterStep != nil {
		return o.afterStep(e, st)
	}
	return nil
}

func (o *compositeOracle) onStep(e *Engine, st *StepRec) *Violation {
	w := o.w
	w.now = st.T
	exp := Exp{}
	resumed := map[int]bool{}
	for _, oi := range st.OpIdx {
		op := &e.C.Ops[oi]
		if op.K == "drop" && op.S >= 0 && op.S < len(w.sess) {
			o.endSession(st, op.S, exp)
		}
		if op.K == "stall" && w.sess[op.S].live() {
			w.stalled[op.S] = true
		}
		if op.K == "resume" && w.stalled[op.S] {
			delete(w.stalled, op.S)
			resumed[op.S] = true
		}
	}
	if st.Phase == "drop" {
		// Epilogue: every remaining session is dropped at the same instant, so
		// what they still receive from each other's departure depends on the
		// order in which the router notices; nothing is asserted for this step.
		scratch := Exp{}
		for i := range w.sess {
			o.endSession(st, i, scratch)
		}
		return nil
	}
	for _, sr := range st.Sent {
		ms := w.sess[sr.S]
		switch m := sr.Msg.(type) {
		case *wamp.Hello:
			if ms.ended {
				continue
			}
			if ms.joined {
				break // a second HELLO on an established session: protocol violation (below)
			}
			ms.started = true
			// The handshake outcome is taken from the observation (C09 owns it).
			for _, r := range st.Recv[sr.S] {
				if wl, ok := r.(*wamp.Welcome); ok && !ms.joined {
					ms.joined = true
					ms.sid = wl.ID
					for _, kv := range ms.cfg.Hello {
						if kv.V.T == "str" {
							ms.attrs[kv.K] = kv.V.S
						}
					}
					for k, v := range wl.Details {
						if s, ok := wamp.AsString(v); ok {
							ms.attrs[k] = s
						}
					}
				}
			}
			if !ms.joined {
				// challenge in flight or aborted
				gotAbort := false
				for _, r := range st.Recv[sr.S] {
					if _, ok := r.(*wamp.Abort); ok {
						gotAbort = true
					}
				}
				if gotAbort {
					ms.ended = true
				}
			}
			exp.may(sr.S, "CHALLENGE", func(m wamp.Message) bool { _, ok := m.(*wamp.Challenge); return ok })
			exp.may(sr.S, "WELCOME or ABORT", func(m wamp.Message) bool {
				switch m.(type) {
				case *wamp.Welcome, *wamp.Abort:
					return true
				}
				return false
			})
			for _, p := range o.parts {
				if v := p.OnSent(w, st, sr, exp); v != nil {
					return v
				}
			}
			continue
		case *wamp.Authenticate:
			for _, r := range st.Recv[sr.S] {
				if wl, ok := r.(*wamp.Welcome); ok && !ms.joined {
					ms.joined = true
					ms.sid = wl.ID
					for _, kv := range ms.cfg.Hello {
						if kv.V.T == "str" {
							ms.attrs[kv.K] = kv.V.S
						}
					}
					for k, v := range wl.Details {
						if s, ok := wamp.AsString(v); ok {
							ms.attrs[k] = s
						}
					}
				}
			}
			exp.may(sr.S, "WELCOME or ABORT", func(m wamp.Message) bool {
				switch m.(type) {
				case *wamp.Welcome, *wamp.Abort:
					return true
				}
				return false
			})
			if ms.joined {
				for _, p := range o.parts {
					if v := p.OnSent(w, st, sr, exp); v != nil {
						return v
					}
				}
			}
			continue
		case *wamp.Goodbye:
			if !ms.live() {
				continue
			}
			// Over a serialised transport the router's last message races with
			// its closing of the transport (Peer.Close discards what is still
			// queued): the reply is demanded for in-process sessions only.
			lastWord := exp.must
			if !ms.local {
				lastWord = exp.may
			}
			lastWord(sr.S, "GOODBYE wamp.close.goodbye_and_out", func(x wamp.Message) bool {
				g, ok := x.(*wamp.Goodbye)
				return ok && g.Reason == wamp.ErrGoodbyeAndOut
			})
			o.endSession(st, sr.S, exp)
			continue
		default:
			_ = m
		}
		if !ms.live() {
			continue
		}
		if !clientMayMessage(sr.Msg) {
			// protocol violation: the offending session alone is aborted.
			exp.may(sr.S, "ABORT wamp.error.protocol_violation", func(x wamp.Message) bool {
				a, ok := x.(*wamp.Abort)
				return ok && a.Reason == wamp.ErrProtocolViolation
			})
			w.st.Label("protocol_violation_end")
			o.endSession(st, sr.S, exp)
			continue
		}
		for _, p := range o.parts {
			if v := p.OnSent(w, st, sr, exp); v != nil {
				return v
			}
		}
		// sessions a part decided must be killed by this message
		var victims []int
		for idx := range w.killed {
			victims = append(victims, idx)
		}
		sort.Ints(victims)
		w.multiKill = len(victims) >= 2
		for _, idx := range victims {
			reason := w.killed[idx]
			delete(w.killed, idx)
			if !w.sess[idx].live() {
				continue
			}
			if reason != "" && !w.stalled[idx] {
				found := false
				for _, x := range st.Recv[idx] {
					if g, ok := x.(*wamp.Goodbye); ok && string(g.Reason) == reason {
						found = true
					}
				}
				anyGoodbye := false
				for _, x := range st.Recv[idx] {
					if _, ok := x.(*wamp.Goodbye); ok {
						anyGoodbye = true
					}
				}
				// (a serialised transport may be closed before the GOODBYE is written, see above)
				if !found && (w.sess[idx].local || anyGoodbye) {
					return w.fail(st, "session %d was killed through the meta API with reason %q but did not receive that GOODBYE (received %s)", idx, reason, recvString(st.Recv[idx]))
				}
				if !found {
					w.st.Label("kill_goodbye_lost_on_remote_transport")
				}
			}
			if w.stalled[idx] {
				// a silent victim finds the GOODBYE (if it still fitted) when it reads again
				w.backlog[idx] = append(w.backlog[idx], expMsg{desc: "GOODBYE (killed while silent)", optional: true,
					match: func(x wamp.Message) bool { _, ok := x.(*wamp.Goodbye); return ok }})
				w.unsure[idx] = true
			}
			w.dying[idx] = true
			o.endSession(st, idx, exp)
		}
		w.multiKill = false
	}
	for _, p := range o.parts {
		if v := p.AfterStep(w, st, exp); v != nil {
			return v
		}
	}
	// A session whose channel the router closed must be one the model ended.
	for _, idx := range st.Closed {
		if s := w.sess[idx]; s.joined && !s.ended {
			return w.fail(st, "session %d: the router closed the session although nothing ended it (received %s)", idx, recvString(st.Recv[idx]))
		}
	}
	ignore := func(s int, m wamp.Message) bool {
		if w.dying[s] {
			return true
		}
		for _, p := range o.parts {
			if p.Ignore(w, s, m) {
				return true
			}
		}
		return false
	}
	for idx := range w.dying {
		delete(exp, idx)
	}
	// sessions that do not read: what is routed to them queues up to the capacity, the rest is lost
	for s := range w.stalled {
		for _, x := range exp[s] {
			if x.optional {
				w.unsure[s] = true
				w.backlog[s] = append(w.backlog[s], x)
				continue
			}
			if len(w.backlog[s]) < w.queueCap(s) || w.unsure[s] {
				w.backlog[s] = append(w.backlog[s], x)
			} else {
				w.overflowed[s] = true
				w.st.Label("stalled_queue_overflow")
			}
		}
		delete(exp, s)
	}
	if st.Phase == "settle" {
		// the engine lets silent sessions read again only after the 24 virtual
		// hours: whatever was routed to them during that time queued up as well
		for s := range w.stalled {
			delete(w.stalled, s)
			resumed[s] = true
		}
	}
	// a session that reads again finds exactly what was queued, in order
	for s := range resumed {
		if !w.sess[s].joined {
			continue
		}
		if w.sess[s].ended {
			// killed while silent: what else was routed to it while the router was ending it
			// (testaments and meta events of sessions killed by the same request, in the
			// router's order) is not determined; only its own end was asserted
			delete(w.backlog, s)
			delete(w.unsure, s)
			if st.Recv != nil {
				delete(st.Recv, s)
			}
			delete(exp, s)
			w.st.Label("silent_session_ended_before_reading_again")
			continue
		}
		got := st.Recv[s]
		cp := w.queueCap(s)
		bl := w.backlog[s]
		delete(w.backlog, s)
		wasUnsure := w.unsure[s]
		delete(w.unsure, s)
		var kept []wamp.Message
		for _, g := range got {
			if !ignore(s, g) {
				kept = append(kept, g)
			}
		}
		cur := exp[s] // expectations of this very step come after the backlog
		delete(exp, s)
		if len(kept) > cp+len(cur)+1 {
			return w.fail(st, "session %d stopped reading with an outbound queue of %d; when it read again it found %d messages (%s)", s, cp, len(kept), recvString(kept))
		}
		if !wasUnsure && !w.sess[s].ended && w.sess[s].local {
			// exact: the first min(len, cap) queued messages, in order, then this step's
			want := bl
			if len(want) > cp {
				want = want[:cp]
			}
			i := 0
			for _, x := range want {
				if i >= len(kept) || !x.match(kept[i]) {
					return w.fail(st, "session %d (queue %d) read again: message %d should be %s; it found %s", s, cp, i, x.desc, recvString(kept))
				}
				i++
			}
			rest := map[int][]wamp.Message{s: kept[i:]}
			if msg := checkExpectations(Exp{s: cur}, rest, len(w.sess), nil); msg != "" {
				return w.fail(st, "after reading its backlog: %s", msg)
			}
			w.st.Label("stalled_backlog_exact")
		} else {
			// only: nothing that was never routed to it
			all := append(append([]expMsg{}, bl...), cur...)
			for i := range all {
				all[i].optional = true
				all[i].seq = 0
			}
			if msg := checkExpectations(Exp{s: all}, map[int][]wamp.Message{s: kept}, len(w.sess), nil); msg != "" {
				return w.fail(st, "session %d read again: %s", s, msg)
			}
			w.st.Label("stalled_backlog_bounded")
		}
		if st.Recv != nil {
			delete(st.Recv, s)
		}
	}
	// More messages routed to a session within one step (one virtual instant)
	// than its queue holds: it cannot have read in between, so the surplus is
	// lost however fast it reads. Which ones survive is then only bounded.
	for s, xs := range exp {
		need := 0
		for _, x := range xs {
			if !x.optional {
				need++
			}
		}
		if cp := w.queueCap(s); need > cp {
			if len(st.Recv[s]) > cp {
				return w.fail(st, "session %d has an outbound queue of %d but received %d messages routed within one virtual instant", s, cp, len(st.Recv[s]))
			}
			for i := range xs {
				xs[i].optional = true
				xs[i].seq = 0
			}
			w.st.Label("burst_exceeds_queue_of_reading_session")
		}
	}
	msg := checkExpectations(exp, st.Recv, len(w.sess), ignore)
	for idx := range w.dying {
		delete(w.dying, idx)
	}
	if msg != "" {
		return w.fail(st, "%s", msg)
	}
	return nil
}

func (o *compositeOracle) OnQuiesced(e *Engine) *Violation {
	if o.onQuiesced != nil {
		return o.onQuiesced(e)
	}
	return nil
}

func (o *compositeOracle) OnClosed(e *Engine) *Violation {
	if o.onClosed != nil {
		return o.onClosed(e)
	}
	return nil
}

func (o *compositeOracle) Stats() CaseStats {
	if o.finishStats != nil {
		o.finishStats(&o.st)
	}
	return o.st
}

func isMetaEvent(m wamp.Message) bool {
	ev, ok := m.(*wamp.Event)
	if !ok {
		return false
	}
	tp, _ := wamp.AsString(ev.Details["topic"])
	return strings.HasPrefix(tp, "wamp.")
}

func checkExpectations(exp Exp, recv map[int][]wamp.Message, nsess int, ignore func(int, wamp.Message) bool) string {
	for s := 0; s < nsess; s++ {
		var got []wamp.Message
		for _, m := range recv[s] {
			if ignore != nil && ignore(s, m) {
				continue
			}
			got = append(got, m)
		}
		want := exp[s]
		used := make([]bool, len(got))
		type ordered struct {
			seq, at   int
			desc, key string
		}
		var ord []ordered
		// mandatory expectations first, then optional ones
		for pass := 0; pass < 2; pass++ {
			for _, w := range want {
				if w.optional != (pass == 1) {
					continue
				}
				found := false
				for i, g := range got {
					if !used[i] && w.match(g) {
						used[i] = true
						found = true
						if w.seq > 0 {
							ord = append(ord, ordered{w.seq, i, w.desc, w.ordKey})
						}
						break
					}
				}
				if !found && !w.optional {
					return fmt.Sprintf("session %d: expected %s, received %s", s, w.desc, recvString(got))
				}
			}
		}
		sort.Slice(ord, func(i, j int) bool { return ord[i].seq < ord[j].seq })
		for i := 1; i < len(ord); i++ {
			for j := 0; j < i; j++ {
				if ord[i].key == ord[j].key && ord[i].at < ord[j].at {
					return fmt.Sprintf("session %d: %s arrived before %s, expected the opposite order; received %s", s, ord[i].desc, ord[j].desc, recvString(got))
				}
			}
		}
		for i, g := range got {
			if !used[i] {
				var ws []string
				for _, w := range want {
					ws = append(ws, w.desc)
				}
				return fmt.Sprintf("session %d: unexpected message %s (expected: [%s])", s, MsgString(g), strings.Join(ws, "; "))
			}
		}
	}
	return ""
}

func recvString(ms []wamp.Message) string {
	var out []string
	for _, m := range ms {
		out = append(out, MsgString(m))
	}
	return "[" + strings.Join(out, "; ") + "]"
}
