#!/usr/bin/env python3
"""Compact view of replay files: ops (short form), verdict, last trace lines."""
import json, sys
def short_v(v):
    t=v.get('t')
    if t in ('list','rawlist','strs','ids'): return '['+','.join(short_v(x) for x in v.get('l',[]))+']'
    if t in ('dict','rawmap'): return '{'+','.join(k['k']+':'+short_v(k['v']) for k in v.get('k',[]))+'}'
    if t=='nil': return 'nil'
    s=v.get('s','')
    return (t+':' if t not in ('str','bool','i64') else '')+(s if len(s)<20 else s[:17]+'...')
def short_op(o):
    parts=[o['k'], 's%d'%o.get('s',0)]
    for k in ('uri','mode','ref','err','ns'):
        if k in o: parts.append('%s=%s'%(k,o[k]))
    if o.get('par'): parts.append('PAR')
    if o.get('opts'): parts.append('{'+','.join(kv['k']+':'+short_v(kv['v']) for kv in o['opts'])+'}')
    if o.get('args'): parts.append('args='+','.join(short_v(a) for a in o['args']))
    if o.get('kw'): parts.append('kw')
    if o.get('msg'): parts.append('msg=%d'%o['msg']['type'])
    return ' '.join(parts)
n=int(sys.argv[1]) if sys.argv[1].isdigit() else 12
for f in sys.argv[1:]:
    if f.isdigit(): continue
    r=json.load(open(f)); c=r['case']; v=r['verdict']
    print('==',f)
    print('realms:',[(x['uri'],{k:v for k,v in x.items() if k not in('uri','users')}) for x in c.get('realms',[])])
    for i,s in enumerate(c.get('sessions',[])):
        roles=s.get('roles',{})
        full=all(len(roles.get(r) or [])>=5 for r in ('callee','caller'))
        print(' s%d'%i, s.get('transport','local'), 'q=%s'%s.get('qsize','') if s.get('qsize') else '', 'nojoin' if s.get('nojoin') else '', 'FULL' if full else {r:f for r,f in roles.items()}, [ (k['k'],k['v'].get('s')) for k in s.get('hello',[])], s.get('authmethods',''))
    for i,o in enumerate(c.get('ops',[])): print('  %d:'%i, short_op(o))
    if c.get('p'): print(' p:',{k:short_v(v) for k,v in c['p'].items()})
    print(v['kind'],':',v.get('reason','')[:1200])
    for l in v.get('trace',[])[-n:]: print('   ',l[:400])
