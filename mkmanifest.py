#!/usr/bin/env python3
"""Regenerates MANIFEST.json from the table below (keeps it schema-valid)."""
import json, os, subprocess

VERIF = os.path.dirname(os.path.abspath(__file__))

# id -> (technique, level text, level note, design ref)
CLAIMED = {
    "C01": ("model-based property testing: rapid-generated sequential pub/sub histories vs. a reference broker model inside a synctest bubble",
            "Exploration: every generated history is executed against the real router with quiescence after each step and the exact multiset of messages at every session is compared with an independent broker/filter/URI model; shrunk counterexamples are replayable. Sampling, not exhaustive.",
            "Reference model written from the property statement; grey zones listed in DESIGN 3.6 accepted either way; Go runtime, synctest, rapid trusted.",
            "DESIGN.md 4/C01"),
}

MODEL_NOTE = "Reference model written from the property statement; grey zones listed in DESIGN 3.6 accepted either way; Go runtime, testing/synctest, rapid trusted."
CLAIMED.update({
    "C02": ("model-based property testing: rapid-generated RPC histories (cancel/timeout/departure/foreign+duplicate answers, progressive call invocations in chunks, callers and callees with full queues) vs. a reference dealer model under a virtual clock; plus concurrent race tails (cancels, answers, departures issued at the timeout instant) judged by interleaving-independent invariants over the complete inboxes",
            "Exploration: the dealer model demands exactly one final reply whenever the statement says one is due and nothing else; judged at quiescence after every step and 24 virtual hours later, so 'never answered' is decided, not guessed. Sampling.",
            MODEL_NOTE, "DESIGN.md 4/C02"),
    "C03": ("model-based property testing: rapid-generated registration structures and calls vs. a reference dealer model (best-match resolution, policy choice sets, id freshness, payload equality)",
            "Exploration: every INVOCATION is checked for callee membership in the policy's allowed set, registration id, fresh request id, unchanged payload and detail flags; unexpected deliveries are violations. Sampling.",
            MODEL_NOTE, "DESIGN.md 4/C03"),
    "C13": ("model-based property testing: every order of cancel modes, answers, timer expiry (T-1ns/T/T+1ns on the synctest fake clock) and departures around calls, sequentially against the dealer model and as concurrent batches released at the same virtual instant as the router's timer (invariant oracle)",
            "Exploration with exact virtual time: 'never before the timeout, exactly at it' is an equality check on the fake clock. Sampling of orders, not exhaustive.",
            MODEL_NOTE, "DESIGN.md 4/C13"),
    "C19": ("property-based differential test against an independent URI/id model; exhaustive enumeration of all strings <= 6 over a 9-symbol alphabet x 6 modes plus rapid-generated strings and ids",
            "Exploration, with one exhaustive (bounded) part: every string up to length 6 over {a Z 0 _ . # space e-acute newline} is compared in all six validation modes in every run; the rest (arbitrary Unicode, ids, wrap window) is sampled.",
            "Independent component-wise model; Unicode white space outside Go's \\s is a grey zone; wrap window 500 taken from the documented constant.", "DESIGN.md 4/C19"),
})

CLAIMED.update({
    "C05": ("model-based property testing with endings injected at arbitrary history positions; broker+dealer+meta reference models plus a structural differential (H1 table-size snapshot vs. model) after every step; a share of the cases on a realm with configured event histories",
            "Exploration: behaviour after every kind of session end is compared with the models at each step, and the router's table sizes (H1 hook) must equal what the history justifies at every quiescent point and the start-up snapshot after everyone left. Sampling.",
            MODEL_NOTE + " H1 hook reads sizes inside the owning goroutines.", "DESIGN.md 4/C05"),
    "C18": ("model-based property testing: mixed histories with meta-topic observers and meta procedure calls between steps vs. broker+dealer+meta reference models",
            "Exploration: every meta answer and every meta event (kind, arguments, recipients, per-object order) is compared with the models after each step; refused/ineffective requests must announce nothing. Sampling. One open known finding (kill_all).",
            MODEL_NOTE, "DESIGN.md 4/C18"),
})

CLAIMED.update({
    "C20": ("model-based property testing: publish/subscriber-churn/query histories with every filter combination through local and serialised sessions vs. a bounded-deque history model under a virtual clock; in-process subscribers rewrite the events they were handed",
            "Exploration: every get_events answer (entries, order, publication ids, payload, topic) is compared with the model; publications are one virtual second apart so time bounds are exact. Sampling.",
            MODEL_NOTE, "DESIGN.md 4/C20"),
})

CLAIMED.update({
    "C04": ("property-based fuzzing of the router: rapid-generated hostile message histories over all transports and serializers plus structured rawsocket/websocket byte streams, in-process applications that rewrite what they are handed, with a liveness probe as oracle; part of the shards under the race detector; real-time hangs with a mutex waiter are decided by replaying the case on the real clock",
            "Exploration: every case runs in a disposable worker process inside a synctest bubble; a panic, Go fatal error or race report is a crash verdict attributed to the case and shrunk; afterwards (and 24 virtual hours later) a fresh probe session must be served with no virtual delay. Sampling; native go-fuzz campaigns extend it in the thorough tier.",
            "Oracle is robustness only (alive + other sessions served). Schedules are sampled (par batches, GOMAXPROCS varied), not enumerated. Go runtime, synctest, race detector, rapid trusted.", "DESIGN.md 4/C04"),
    "C12": ("model-based + metamorphic property testing: exact per-recipient EVENT details from the recipient's own features/subscription, identity-key necessity for INVOCATIONs, snapshot-then-mutate immutability probe on in-process recipients, transport.auth absence in session meta output",
            "Exploration: details are compared with what the recipient alone justifies (so dependence on co-recipients is a mismatch), every delivery is snapshotted and re-compared after later steps and after mutating other in-process copies; one shard under the race detector. Sampling.",
            MODEL_NOTE + " Immutability probed with top-level mutations only.", "DESIGN.md 4/C12"),
})

CLAIMED.update({
    "C14": ("property-based round-trip / cross-format differential / wire-shape / idempotence testing of the three serializers over generated messages of all 24 types, plus structured-mutation byte fuzzing of Deserialize",
            "Exploration in-process (no router): generated well-typed messages must survive every format and agree across formats; byte inputs must never panic and yield error xor a re-serialisable message, with an error required whenever the mutation makes the input invalid by the statement. Sampling.",
            "Canonical comparison (numbers by value, nil == empty for trailing payload); int-for-string and float-for-id are grey zones; ugorji codec trusted as a black box.", "DESIGN.md 4/C14"),
    "C15": ("property-based testing of the transports: generated rawsocket handshakes and frame scripts (boundary sizes, drops, reserved types, PING concurrent with traffic) against the real peer with a harness-written client codec, the same script through the websocket peer, and a differential replay of router scenarios over all 7 transports",
            "Exploration: delivered == sent minus whole drops, in order and intact; bad frames end only that connection; PONG payloads match and the stream stays parseable under concurrency; canonical per-session observations equal across transports. Sampling.",
            "gorilla/websocket framing trusted (in-memory WebsocketConnection); transparency compared up to numeric representation, id renaming and order within one step.", "DESIGN.md 4/C15"),
})

CLAIMED.update({
    "C16": ("model-based property testing of the client: the real client.Client on one end of transport.LinkedPeers inside a virtual-clock bubble, generated concurrent API scripts against a scripted router whose reply policy per request (now / delayed to the coincidence set around the response timeout / twice / after a foreign reply / ERROR / never) and invocation, interrupt and event schedule are generated; each return value is judged against what the scripted router did for that request (correlation tokens)",
            "Exploration: a call returning another request's reply, a missing or mistimed ErrReplyTimeout, progress after return or out of order, a missing, duplicated or wrong-mode CANCEL, a handler run twice or answered twice, a context not cancelled by INTERRUPT or timeout, overlapping or reordered event handlers, a stuck receive loop (probe request after the script). Sampling.",
            "A CANCEL that gets no answer may end in the context's error or ErrReplyTimeout; events and invocations are only scripted for subscriptions/registrations whose API call has returned; a third INVOCATION with the id of a running one is left to C17.", "DESIGN.md 4/C16"),
    "C17": ("robustness property testing / structured fuzzing of the client: the C16 rig with a hostile script - raw messages of every type with generated ids, details and arguments of every value type, pass-through fields as a hostile client could set them, replies at the timeout instant, GOODBYE / ABORT / transport drop at generated instants, Close() racing with API calls",
            "Exploration: a panic anywhere in the client (worker crash), an API call or Close() that does not return under the virtual clock, Done() not signalled after GOODBYE/ABORT/EOF, a later call succeeding on a dead session, a benign request unanswered after the hostile burst, a goroutine left in the bubble. Sampling.",
            "Hostile values are Go values an in-process router peer can deliver; correlation is not judged under hostile replies (C16 does).", "DESIGN.md 4/C17"),
})

CLAIMED.update({
    "C09": ("model-based property testing of the handshake: generated authentication configurations x scripted adversarial handshakes (replay, wrong key, other user, malformed, silence, first-message violations, smuggled details, tracking-cookie key stores, users without a role, pipelined messages) vs. an acceptance model with independent HMAC/Ed25519 verification, observed through a meta-API observer; one shard under the race detector",
            "Exploration: soundness (WELCOME implies the model allows it and the response verifies against this handshake's challenge) and completeness (valid credentials are welcomed) per handshake, identity shown to others equals the authenticator's, nothing of an aborted peer is routed or listed. Sampling.",
            "Cryptographic strength of HMAC-SHA256/Ed25519 assumed; in-process peers without RequireLocalAuth are trusted by documented policy.", "DESIGN.md 4/C09"),
})

CLAIMED.update({
    "C10": ("differential property testing: each generated history runs with a generated decision-table Authorizer and again, without one, on the filtered and pre-rewritten history; canonical observations and H1 table snapshots must agree",
            "Exploration: any request type routed around the gate, partial effect before a denial, wrong reply type/id/URI, or consultation of exempt sessions shows up as a difference between the two runs or in the per-denial ERROR accounting. Sampling.",
            "Request ids kept aligned between the runs; observations compared as per-step multisets with ids renamed; random invocation policy excluded.", "DESIGN.md 4/C10"),
    "C11": ("differential non-interference testing: generated two-realm histories with coinciding ids and cross-aimed requests run with and without the second realm; realm A's canonical observations must be equal and B must never see A's session ids",
            "Exploration: a shared table or id generator, a realm lookup by the wrong key, or a crash/teardown spilling over from RemoveRealm shows up as a difference in A's observations. Sampling.",
            "Observations compared as per-step multisets with ids renamed; random invocation policy excluded.", "DESIGN.md 4/C11"),
})

CLAIMED.update({
    "C06": ("property-based concurrency testing: generated in-flight states followed by a concurrent batch of Router.Close / RemoveRealm with other operations under varied GOMAXPROCS, virtual time and the race detector; oracle = Close returns, process alive after all timers, clients told or closed (also those ending on their own account at that moment), late attaches refused, no goroutine left; hangs with a mutex waiter decided on the real clock",
            "Exploration: each case runs in a disposable worker inside a synctest bubble (24 virtual hours after the shutdown, so late timer panics are seen), par cases 3 times, a third of the shards under -race; leaks and deadlocks are verdicts of their own. Schedules are sampled, not enumerated.",
            "Interleavings come from the Go scheduler; virtual time makes timer-vs-shutdown orders reachable. A window narrower than scheduler granularity can be missed.", "DESIGN.md 4/C06"),
})

CLAIMED.update({
    "C07": ("model-based property testing with silent clients: generated queue sizes, stall/resume points, publication bursts, calls and kills involving silent sessions; exact reference-model expectations for every reading session at zero virtual latency, exact queue-prefix check for a silent session that reads again, bounded-hold checks for the result-retry exception (final and progressive results, delivery at the first retry after the caller reads again, no second hold after the call was cancelled); deadlock/leak/hang are verdicts, hangs with a mutex waiter decided on the real clock",
            "Exploration under a virtual clock: 'without delay' is an equality (replies and deliveries in the step of the request); a blocking send or unbounded retry shows up as a synctest deadlock, a missing delivery or a message the router has not accepted after two retry periods. Sampling.",
            "Calls whose callee or caller is silent are outside the exact model (accepted either way, bounded hold asserted); serialised transports get two extra buffered messages; callees are in-process so that a held handler is observable.", "DESIGN.md 4/C07"),
})

CLAIMED.update({
    "C08": ("property-based concurrency testing: generated actor scripts (numbered publication bursts, call bursts with progressive results, subscribe/unsubscribe/register/unregister during traffic) run concurrently under the real scheduler with varied GOMAXPROCS and transports; history invariants over the order in which each peer read its messages",
            "Exploration: each case executed three times; sequence numbers per (publisher, topic, subscription), call order per (caller, callee), progressive-before-final, SUBSCRIBED/REGISTERED before first delivery and nothing after UNSUBSCRIBED/UNREGISTERED. Schedules sampled, not enumerated.",
            "Loss is not judged (large queues); only interleavings the Go scheduler produces are seen.", "DESIGN.md 4/C08"),
})

NOT_YET = {}

def main():
    props = [json.loads(l) for l in open(os.path.join(VERIF, "properties.jsonl"))]
    checks = []
    na = []
    for p in props:
        pid = p["id"]
        if pid in CLAIMED:
            tech, text, note, ref = CLAIMED[pid]
            checks.append({
                "property_id": pid,
                "quick_cmd": f"./check {pid} --tier quick",
                "thorough_cmd": f"./check {pid} --tier thorough",
                "evidence_file": f"/verif/evidence/{pid}.json",
                "replay_cmd_template": "./check {property} --replay {path}",
                "engine": "harness",
                "level_claimed": {"category": "exploration", "text": text, "design_ref": ref},
                "level_note": note,
                "technique": tech,
            })
        else:
            na.append({"property_id": pid, "reason": NOT_YET.get(pid, "check not built yet in this session (property-based check planned in DESIGN.md section 4)")})
    hooks_commits = []
    try:
        out = subprocess.run(["git", "-C", "/repo", "log", "--format=%H %s"], capture_output=True, text=True).stdout
        for line in out.splitlines():
            h, _, s = line.partition(" ")
            if s.startswith("verif hook"):
                hooks_commits.append(h)
    except Exception:
        pass
    m = {
        "version": 1,
        "setup_cmd": "./setup.sh",
        "hooks": {
            "guard": "verif (Go build tag)",
            "enable": "go test -c -tags verif (harness module with `replace github.com/gammazero/nexus/v3 => /repo`)",
            "baseline_off_cmd": "cd /repo && go test -mod=mod -vet=off -count=1 -timeout 25m ./...",
            "source_commits": hooks_commits,
            "add_only": True,
        },
        "engines": [{
            "name": "harness",
            "path": "/verif/harness",
            "serves_properties": sorted(CLAIMED),
            "kind_free_text": "Go test binary: rapid v1.3.0 shards draw pure-data cases, a worker process executes each inside a testing/synctest bubble against the real router/client, oracles are reference models / differential runs / history invariants; python driver ./check",
        }],
        "checks": checks,
        "not_applicable": na,
        "notes": "All checks are property-based tests / fuzzing (pgregory.net/rapid + native go fuzz); see DESIGN.md.",
    }
    with open(os.path.join(VERIF, "MANIFEST.json"), "w") as f:
        json.dump(m, f, indent=1)

if __name__ == "__main__":
    main()
