import json,sys
for f in sys.argv[1:]:
    r=json.load(open(f)); c=r['case']; v=r['verdict']
    print('==',f.split('/')[-1], len(c['ops']),'ops', [(s.get('transport','local'),s.get('qsize','')) for s in c['sessions']], 'gmp',c.get('gomaxprocs'), v['kind'])
    for i,o in enumerate(c['ops']):
        d={k:v2 for k,v2 in o.items() if k not in('args','kw','msg','opts','n')}
        extra=''
        if 'opts' in o: extra+=' opts='+json.dumps({k['k']:(k['v'].get('s',k['v'].get('t'))) for k in o['opts']})
        if 'msg' in o: extra+=' msg=%d %s'%(o['msg']['type'], json.dumps(o['msg'].get('fields'))[:200])
        if o['k'] in('bytes','wsframe'): extra+=' '+json.dumps(o.get('args'))[:120]
        print('  ',i,d,extra[:300])
    print('   ', v['reason'][:1400].replace('\n','\n    '))
