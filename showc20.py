import json,sys
for f in sys.argv[1:]:
    r=json.load(open(f)); c=r['case']
    print('==',f); print(c['realms'][0].get('history'), [s.get('transport','local') for s in c['sessions']])
    for i,o in enumerate(c['ops']):
        kw={k['k']:(k['v'].get('s') or k['v'].get('t')) for k in o.get('kw',[])} if o['k']=='meta' else ''
        opts={k['k']:(k['v'].get('s') or k['v'].get('t')) for k in o.get('opts',[])}
        print(' ',i,o['k'],'s%d'%o.get('s',0),o.get('uri',''),o.get('mode',''),o.get('ref',''),opts or '',kw, [a.get('s') for a in o.get('args',[])] if o['k']=='meta' else '')
    print(r['verdict']['kind'], r['verdict']['reason'][:1500])
    for l in r['verdict'].get('trace',[])[-6:]: print('   ',l[:700])
